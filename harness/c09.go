package main

// C09: generated multi-goroutine programs over the documented concurrent API of zap,
// run in a child process built with -race (work/zapdrive-race next to this binary, when
// present), with recover() around every call and a progress watchdog in the parent.
//
// wire case:   input = ( (thread ...) (tid ...) [shape:<word>] ),  thread = ( (instance #unit) ... )
//              obs   = ( race deadlock panic 0 )
// (a prelude -- operations run one after the other before the goroutines start -- is the last
// thread of the input; "race" is also set when an entry carries the data of another goroutine's
// log call, see c09_edge.go)
// (the third element, present for shaped scenarios only, says how the shared object was
// derived before it was shared; it selects the real object graph and is not read by the model)
// The input is the program at the level of the access summaries (which summaries each
// goroutine runs on which shared object) plus one seeded schedule for the Coq
// interleaving semantics; the observation is what the race detector / watchdog /
// recover saw while the real API calls ran.  A race report, a stuck watchdog or an
// unexpected panic is additionally reported through ctx.Viol with the API-level
// program (scenario[:shape.], fresh|warm, op names per goroutine) + seed + index as replay.

import (
	"bufio"
	"fmt"
	"io"
	"os"
	"os/exec"
	"path/filepath"
	"strconv"
	"strings"
	"sync"
	"time"
)

func init() { registry["C09"] = c09 }

type c09call struct {
	inst int
	unit string
}

type c09op struct {
	name     string
	run      func(g, k int)
	units    []c09call
	mut      bool // changes shared state
	mayPanic bool // Panic / Fatal-with-panic-hook: a panic is the documented behaviour
	derive   bool // builds a new object (logger, core, handler) from the SHARED one: two goroutines doing it make siblings
	edge     bool // a rare path (error return, nothing captured, disabled level, failing callback) on a logger of its own
}

type c09scen struct {
	ops     []c09op
	cleanup func()
	// after the program: "" or a description of an entry that carries another log call's data
	// (evidence of a race on a recycled object even when the race detector saw no conflicting pair)
	check func() string
}

type c09prog struct {
	scen    int
	shape   string // shaped scenarios only: how the shared object was derived before it was shared (c09_scen.go)
	warm    bool
	class   string
	pre     []int // prelude: operations run one after the other BEFORE the goroutines start
	threads [][]int
	sched   []int
}

// a bare word of the wire format when possible (readable replays), a hex string otherwise
type c09word string

func (w c09word) write(b *strings.Builder) {
	ok := len(w) > 0 && !(w[0] >= '0' && w[0] <= '9') && w[0] != '-' && w[0] != '#'
	for i := 0; i < len(w) && ok; i++ {
		ch := w[i]
		ok = ch > ' ' && ch < 0x7f && ch != '(' && ch != ')' && ch != '\t'
	}
	if ok {
		b.WriteString(string(w))
		return
	}
	Str(string(w)).write(b)
}

func u(inst int, names ...string) []c09call {
	out := make([]c09call, len(names))
	for i, n := range names {
		out[i] = c09call{inst, n}
	}
	return out
}
func cat(ls ...[]c09call) []c09call {
	var out []c09call
	for _, l := range ls {
		out = append(out, l...)
	}
	return out
}

// ---------------------------------------------------------------- generation (deterministic)

// directed shapes of the shaped scenarios (see c09shapeDoc in c09_scen.go): every number of
// pending groups 0..9 (whatever growth policy a slice of pending names has, some of these
// lengths leave spare capacity), and the same depths reached with attrs in between
var c09pureShapes = []string{"", "g", "gg", "ggg", "gggg", "ggggg", "gggggg", "ggggggg", "gggggggg", "ggggggggg"}
var c09mixedShapes = []string{"aggg", "gaggg", "gegg", "ggeg", "ggge", "eggg", "gngg", "gggag", "gagaggg", "ggggeg", "gggeggg", "ggagggggn"}

func c09randShape(r *RNG) string {
	var b []byte
	for n := r.Intn(4); n > 0; n-- { // a prefix of anything
		b = append(b, "ggaaen"[r.Intn(6)])
	}
	for d := r.Intn(10); d > 0; d-- { // then 0..9 groups left pending, attrs without a field in between
		b = append(b, 'g')
		if r.Chance(12) {
			b = append(b, "en"[r.Intn(2)])
		}
	}
	return string(b)
}

func c09programs(seed uint64, thorough bool) []c09prog {
	r := NewRNG(seed)
	var out []c09prog
	nops := make([]int, len(c09scens))
	derive := make([][]int, len(c09scens))
	edge := make([][]int, len(c09scens))  // the edge operations of a scenario ...
	plain := make([][]int, len(c09scens)) // ... and its ordinary ones that log
	for i := range c09scens {
		sc := c09build(i, false, "")
		nops[i] = len(sc.ops)
		for j := range sc.ops {
			if sc.ops[j].derive {
				derive[i] = append(derive[i], j)
			}
			if sc.ops[j].edge {
				edge[i] = append(edge[i], j)
			} else if sc.ops[j].mut && !sc.ops[j].mayPanic && len(sc.ops[j].units) > 3 {
				plain[i] = append(plain[i], j)
			}
		}
		sc.cleanup()
	}
	var pre []int // prelude of the next program made by mkS
	mkS := func(scen int, shape string, warm bool, class string, threads [][]int) {
		total := len(pre)
		for _, t := range threads {
			total += len(t)
		}
		n := 30 + 8*total
		if n > 600 {
			n = 600
		}
		sched := make([]int, n)
		for i := range sched {
			sched[i] = r.Intn(len(threads) + 2) // + possibly spawned threads
		}
		out = append(out, c09prog{scen: scen, shape: shape, warm: warm, class: class, pre: pre, threads: threads, sched: sched})
		pre = nil
	}
	// the shapes a directed class runs a scenario on
	shapesOf := func(s int, all bool) []string {
		if c09scens[s].shaped == nil {
			return []string{""}
		}
		if !all {
			return c09pureShapes
		}
		return append(append([]string{}, c09pureShapes...), c09mixedShapes...)
	}
	// 1. directed: many goroutines doing the first op (a plain log call) on a fresh object
	reps := 12
	if thorough {
		reps = 60
	}
	for s := range c09scens {
		shapes := shapesOf(s, true)
		for k := 0; k < reps; k++ {
			ng := 2 + k%7
			th := make([][]int, ng)
			for g := range th {
				th[g] = []int{0}
			}
			mkS(s, shapes[k%len(shapes)], false, "fresh-burst", th)
		}
	}
	// 2. every unordered pair of operations of every scenario (every pure shape), two goroutines, fresh object
	for s := range c09scens {
		for _, shape := range shapesOf(s, thorough) {
			for i := 0; i < nops[s]; i++ {
				for j := i; j < nops[s]; j++ {
					mkS(s, shape, false, "pairs", [][]int{{i, i}, {j, j}})
					if thorough {
						mkS(s, shape, true, "pairs-warm", [][]int{{i, j}, {j, i}, {i}})
					}
				}
			}
		}
	}
	// 3. siblings: every operation that derives a new object from the shared one, done by 2..8
	// goroutines at once (the derived objects are siblings: whatever they inherit from the
	// shared parent -- context slices, pending group names, option lists -- must not be
	// written through), alone and next to one reader of the shared object and of the
	// siblings made before the goroutines started; every shape
	for s := range c09scens {
		for _, shape := range shapesOf(s, true) {
			for _, d := range derive[s] {
				for _, ng := range []int{2, 3, 8} {
					th := make([][]int, ng)
					for g := range th {
						th[g] = []int{d, d}
					}
					mkS(s, shape, false, "siblings", th)
				}
				o := r.Intn(nops[s])
				mkS(s, shape, false, "siblings-mixed", [][]int{{d, o, d}, {d, d}, {o, d, o}, {d}})
				if thorough {
					for _, d2 := range derive[s] {
						mkS(s, shape, true, "siblings-warm", [][]int{{d, d2}, {d2, d}, {d, d}, {d2, d2}})
					}
				}
			}
		}
	}
	// 4. edge paths (scenarios that have edge operations): a rare path that mishandles a recycled
	// object is harmless where it happens and breaks ordinary logging LATER, so every edge
	// operation e is (a) run in the prelude, once and three times, before 2, 4 and 8 goroutines
	// log through the ordinary loggers, each from functions of its own; (b) run in the prelude and
	// again and again by one goroutine while the others log; (c) mixed with a second edge
	// operation in the prelude and inside the logging goroutines
	for s := range c09scens {
		if len(edge[s]) == 0 || len(plain[s]) == 0 {
			continue
		}
		po := func(i int) int { return plain[s][i%len(plain[s])] }
		for ei, e := range edge[s] {
			for vi, ng := range []int{2, 4, 8} {
				th := make([][]int, ng)
				for g := range th {
					th[g] = []int{po(g + ei), po(g + ei + 3), po(g + ei + 5)}
				}
				pre = []int{e}
				if vi == 1 {
					pre = []int{e, e, e}
				}
				mkS(s, "", vi == 2, "edge-then-burst", th)
			}
			pre = []int{e}
			mkS(s, "", false, "edge-interleaved", [][]int{{e, po(ei), e, po(ei + 1), e, po(ei + 2), e}, {po(ei + 1), po(ei + 2), po(ei), po(ei + 4)},
				{po(ei + 2), po(ei), po(ei + 1), po(ei + 3)}, {po(ei + 6), e, po(ei + 7), e}})
			e2 := edge[s][r.Intn(len(edge[s]))]
			pre = []int{e, e2}
			mkS(s, "", false, "edge-mixed", [][]int{{po(ei), e2, po(ei + 1), e}, {e, po(ei + 2), e2, po(ei + 3)}, {po(ei + 4), po(ei + 5), po(ei + 6)}})
		}
	}
	// 5. seeded random programs: 2..8 goroutines, 1..12 calls each, fresh or warmed up, with (one
	// in three) a prelude of 1..4 operations, edge operations first where the scenario has them;
	// a shaped scenario on a random shape
	N := 1400
	if thorough {
		N = 22000
	}
	for k := 0; k < N; k++ {
		s := r.Intn(len(c09scens))
		shape := ""
		if c09scens[s].shaped != nil {
			shape = c09randShape(r)
		}
		ng := r.Range(2, 8)
		th := make([][]int, ng)
		for g := range th {
			n := r.Range(1, 12)
			th[g] = make([]int, n)
			for i := range th[g] {
				th[g][i] = r.Intn(nops[s])
			}
		}
		warm := r.Chance(40)
		class := "random-fresh"
		if warm {
			class = "random-warm"
		}
		if r.Chance(33) {
			class += "-prelude"
			for n := r.Range(1, 4); n > 0; n-- {
				if len(edge[s]) > 0 && !r.Chance(25) {
					pre = append(pre, edge[s][r.Intn(len(edge[s]))])
				} else {
					pre = append(pre, r.Intn(nops[s]))
				}
			}
		}
		mkS(s, shape, warm, class, th)
	}
	return out
}

// ---------------------------------------------------------------- child: run programs

func c09runProg(p *c09prog) (unexpected int, expected int, first string, mixed string) {
	sc := c09build(p.scen, p.warm, p.shape)
	var wg sync.WaitGroup
	var mu sync.Mutex
	call := func(g, k, oi int) {
		op := &sc.ops[oi]
		defer func() {
			if e := recover(); e != nil {
				mu.Lock()
				if op.mayPanic {
					expected++
				} else {
					unexpected++
					if first == "" {
						first = fmt.Sprintf("%s: %v", op.name, e)
					}
				}
				mu.Unlock()
			}
		}()
		op.run(g, k)
	}
	for k, oi := range p.pre { // the prelude: sequential, before any goroutine exists
		call(len(p.threads), k, oi)
	}
	start := make(chan struct{})
	for g, ops := range p.threads {
		wg.Add(1)
		go func(g int, ops []int) {
			defer wg.Done()
			<-start
			for k, oi := range ops {
				call(g, k, oi)
			}
		}(g, ops)
	}
	close(start)
	wg.Wait()
	if sc.check != nil {
		func() {
			defer func() {
				if e := recover(); e != nil {
					unexpected++
					if first == "" {
						first = fmt.Sprintf("check: %v", e)
					}
				}
			}()
			mixed = sc.check()
		}()
	}
	func() {
		defer func() {
			if e := recover(); e != nil {
				unexpected++
				if first == "" {
					first = fmt.Sprintf("cleanup: %v", e)
				}
			}
		}()
		sc.cleanup()
	}()
	return
}

func c09child(seed uint64, thorough bool, from, to int) {
	progs := c09programs(seed, thorough)
	if to > len(progs) {
		to = len(progs)
	}
	skip := map[int]bool{}
	for _, f := range strings.Split(os.Getenv("C09_SKIP"), ",") {
		if v, err := strconv.Atoi(f); err == nil {
			skip[v] = true
		}
	}
	for i := from; i < to; i++ {
		if skip[progs[i].scen] {
			fmt.Fprintf(os.Stderr, "@@SKIP %d\n", i)
			continue
		}
		fmt.Fprintf(os.Stderr, "@@BEGIN %d\n", i)
		un, ex, first, mixed := c09runProg(&progs[i])
		if mixed != "" {
			fmt.Fprintf(os.Stderr, "@@MIX %d %s\n", i, strings.ReplaceAll(mixed, "\n", " "))
		}
		fmt.Fprintf(os.Stderr, "@@END %d %d %d %s\n", i, un, ex, strings.ReplaceAll(first, "\n", " "))
	}
	fmt.Fprintf(os.Stderr, "@@DONE\n")
}

// ---------------------------------------------------------------- parent

type c09res struct {
	skipped  bool
	done     bool
	race     bool
	raceText string
	dead     bool
	panics   int
	expected int
	panicMsg string
	crash    string
	mixed    string // an entry carrying another log call's data
}

func c09raceSummary(block []string) string {
	var parts []string
	for i := 0; i < len(block); i++ {
		l := strings.TrimSpace(block[i])
		if strings.HasPrefix(l, "Write at") || strings.HasPrefix(l, "Read at") || strings.HasPrefix(l, "Previous write at") ||
			strings.HasPrefix(l, "Previous read at") || strings.HasPrefix(l, "Atomic") || strings.HasPrefix(l, "Previous atomic") {
			kind := strings.SplitN(l, " at ", 2)[0]
			fn, loc := "", ""
			if i+1 < len(block) {
				fn = strings.TrimSpace(block[i+1])
			}
			if i+2 < len(block) {
				loc = strings.TrimSpace(block[i+2])
				if j := strings.LastIndex(loc, "/"); j >= 0 {
					loc = loc[j+1:]
				}
				if j := strings.Index(loc, " "); j >= 0 {
					loc = loc[:j]
				}
			}
			parts = append(parts, kind+" "+fn+" "+loc)
		}
	}
	if len(parts) == 0 {
		return "DATA RACE (report not parsed)"
	}
	return "DATA RACE: " + strings.Join(parts, " vs ")
}

// run programs [from, len) in one child; returns after the child ends or is killed
func c09runChild(exe string, seed uint64, thorough bool, from int, res []c09res, limit time.Duration) (next int) {
	tier := "quick"
	if thorough {
		tier = "thorough"
	}
	cmd := exec.Command(exe, "C09", "-seed", strconv.FormatUint(seed, 10), "-tier", tier, "-out", os.DevNull)
	cmd.Env = append(os.Environ(), "C09_CHILD=1", "C09_FROM="+strconv.Itoa(from), "GORACE=halt_on_error=0 exitcode=0 history_size=3")
	stderr, err := cmd.StderrPipe()
	if err != nil {
		res[from].crash = "cannot start child: " + err.Error()
		return from + 1
	}
	cmd.Stdout = io.Discard
	if err := cmd.Start(); err != nil {
		res[from].crash = "cannot start child: " + err.Error()
		return from + 1
	}
	lines := make(chan string, 1024)
	go func() {
		sc := bufio.NewScanner(stderr)
		sc.Buffer(make([]byte, 1<<20), 1<<24)
		for sc.Scan() {
			lines <- sc.Text()
		}
		close(lines)
	}()
	cur := -1
	next = from
	var block []string
	inBlock := false
	var tail []string
	timer := time.NewTimer(limit)
	defer timer.Stop()
	for {
		select {
		case l, ok := <-lines:
			if !ok {
				cmd.Wait()
				if cur >= 0 && !res[cur].done { // the child died inside program cur
					res[cur].crash = "child process died: " + strings.Join(tail, " | ")
					return cur + 1
				}
				return next
			}
			if !timer.Stop() {
				select {
				case <-timer.C:
				default:
				}
			}
			timer.Reset(limit)
			switch {
			case strings.HasPrefix(l, "@@BEGIN "):
				cur, _ = strconv.Atoi(strings.TrimPrefix(l, "@@BEGIN "))
				tail = nil
			case strings.HasPrefix(l, "@@END "):
				f := strings.SplitN(strings.TrimPrefix(l, "@@END "), " ", 4)
				i, _ := strconv.Atoi(f[0])
				res[i].panics, _ = strconv.Atoi(f[1])
				res[i].expected, _ = strconv.Atoi(f[2])
				if len(f) > 3 {
					res[i].panicMsg = f[3]
				}
				res[i].done = true
				next = i + 1
			case strings.HasPrefix(l, "@@MIX "):
				f := strings.SplitN(strings.TrimPrefix(l, "@@MIX "), " ", 2)
				if i, err := strconv.Atoi(f[0]); err == nil && i >= 0 && i < len(res) && len(f) > 1 {
					res[i].mixed = f[1]
				}
			case strings.HasPrefix(l, "@@SKIP "):
				i, _ := strconv.Atoi(strings.TrimPrefix(l, "@@SKIP "))
				res[i].skipped = true
				res[i].done = true
				next = i + 1
			case l == "@@DONE":
			case strings.HasPrefix(l, "WARNING: DATA RACE"):
				inBlock = true
				block = []string{l}
			case inBlock && strings.HasPrefix(l, "=================="):
				inBlock = false
				if cur >= 0 && !res[cur].race {
					res[cur].race = true
					res[cur].raceText = c09raceSummary(block)
				}
			case inBlock:
				if len(block) < 80 {
					block = append(block, l)
				}
			default:
				if len(tail) < 12 && strings.TrimSpace(l) != "" && !strings.HasPrefix(l, "==================") {
					tail = append(tail, strings.TrimSpace(l))
				}
			}
		case <-timer.C:
			cmd.Process.Kill()
			cmd.Wait()
			if cur >= 0 && !res[cur].done {
				res[cur].dead = true
				return cur + 1
			}
			return next
		}
	}
}

func c09(c *Ctx) {
	if os.Getenv("C09_CHILD") == "1" {
		from, _ := strconv.Atoi(os.Getenv("C09_FROM"))
		to := 1 << 30
		if v := os.Getenv("C09_TO"); v != "" {
			to, _ = strconv.Atoi(v)
		}
		c09child(c.Seed, c.Thorough, from, to)
		return
	}
	progs := c09programs(c.Seed, c.Thorough)
	self, _ := os.Executable()
	exe := self
	raceOn := "off"
	if strings.HasSuffix(filepath.Base(self), "-race") {
		raceOn = "on"
	} else if cand := filepath.Join(filepath.Dir(self), "zapdrive-race"); c09fresh(cand, self) {
		exe = cand
		raceOn = "on"
	}
	res := make([]c09res, len(progs))
	limit := 10 * time.Second
	// watchdog budget: an expiry is retried once with a longer limit (a loaded machine is not a
	// deadlock); after three expiries in one scenario its remaining programs are skipped
	// (each costs the full limit), and the skipped rows say so
	deadIn := map[int]int{}
	expiries := 0
	var skip []string
	for i := 0; i < len(progs); {
		os.Setenv("C09_SKIP", strings.Join(skip, ","))
		n := c09runChild(exe, c.Seed, c.Thorough, i, res, limit)
		if n > 0 && n <= len(progs) && n-1 >= i && res[n-1].dead {
			sc := progs[n-1].scen
			deadIn[sc]++
			expiries++
			if deadIn[sc] <= 2 {
				one := make([]c09res, len(progs))
				c09runOne(exe, c.Seed, c.Thorough, n-1, one, 30*time.Second)
				res[n-1] = one[n-1]
			}
			if deadIn[sc] == 3 {
				skip = append(skip, strconv.Itoa(sc))
			}
		}
		if n <= i {
			n = i + 1
		}
		i = n
	}
	os.Unsetenv("C09_SKIP")
	races, deads, panics, expected, nskipped, mixups := 0, 0, 0, 0, 0, 0
	// side-channel lines are written after all case rows (ocaml/driver answers every line it reads,
	// the runner pairs verdicts with rows only)
	type viol struct {
		what   string
		replay SX
	}
	var viols []viol
	perKind := map[string]int{}
	addViol := func(kind, what string, replay SX) {
		perKind[kind]++
		if perKind[kind] <= 6 { // the first few of each kind are reported, all are counted
			viols = append(viols, viol{what, replay})
		}
	}
	for i := range progs {
		p := &progs[i]
		sc := c09scens[p.scen]
		scn := c09build(p.scen, false, p.shape)
		var threads []SX
		mut := false
		total := 0
		replayT := make([]SX, len(p.threads))
		for g, ops := range p.threads {
			var calls []SX
			names := make([]SX, len(ops))
			for k, oi := range ops {
				op := &scn.ops[oi]
				names[k] = c09word(op.name)
				mut = mut || op.mut
				total++
				for _, cl := range op.units {
					calls = append(calls, L(I(cl.inst), Str(cl.unit)))
				}
			}
			replayT[g] = L(names...)
			threads = append(threads, L(calls...))
		}
		var preNames []SX
		if len(p.pre) > 0 { // the prelude is one more thread of the model's program (which may interleave it: more behaviours, never fewer)
			var calls []SX
			for _, oi := range p.pre {
				op := &scn.ops[oi]
				preNames = append(preNames, c09word(op.name))
				mut = mut || op.mut
				total++
				for _, cl := range op.units {
					calls = append(calls, L(I(cl.inst), Str(cl.unit)))
				}
			}
			threads = append(threads, L(calls...))
		}
		scn.cleanup()
		r := &res[i]
		bad := r.panics > 0 || r.crash != ""
		obs := L(Bool(r.race || r.mixed != ""), Bool(r.dead), Bool(bad), I(0))
		nt := "0"
		if len(p.threads) >= 2 && total >= 4 && mut && !r.skipped {
			nt = "1"
		}
		cls := sc.name + "/" + p.class
		if r.skipped {
			cls = sc.name + "/not-run-after-deadlocks"
			nskipped++
		}
		fresh := "fresh"
		if p.warm {
			fresh = "warm"
		}
		input := L(L(threads...), LI(p.sched))
		if sc.shaped != nil {
			// the shape selects the real object graph only; the access summaries a call runs do not depend on it
			input = L(L(threads...), LI(p.sched), c09word("shape:"+p.shape))
		}
		c.Emit(input, obs, map[string]string{"nt": nt, "class": cls,
			"g": strconv.Itoa(len(p.threads)), "ops": strconv.Itoa(total), "shape": p.shape})
		name := sc.name
		if sc.shaped != nil {
			name += ":" + p.shape + "." // the shape is part of the program: (scenario:shape. fresh|warm ...)
		}
		replay := L(c09word(name), c09word(fresh), L(replayT...), c09word("seed"), U(c.Seed), c09word("index"), I(i))
		if len(p.pre) > 0 {
			replay = L(c09word(name), c09word(fresh), c09word("prelude"), L(preNames...), L(replayT...), c09word("seed"), U(c.Seed), c09word("index"), I(i))
		}
		expected += r.expected
		if r.race {
			races++
			addViol("race", fmt.Sprintf("race detector: %s [scenario %s, %s, %d goroutines]", r.raceText, sc.name, fresh, len(p.threads)), replay)
		}
		if r.mixed != "" {
			mixups++
			addViol("mixed", fmt.Sprintf("data of another goroutine's log call (a recycled object was in use by two goroutines): %s [scenario %s, %s, %d goroutines]", r.mixed, sc.name, fresh, len(p.threads)), replay)
		}
		if r.dead {
			deads++
			addViol("dead", fmt.Sprintf("watchdog: no progress (deadlock) [scenario %s, %s, %d goroutines]", sc.name, fresh, len(p.threads)), replay)
		}
		if r.panics > 0 {
			panics++
			addViol("panic", fmt.Sprintf("unexpected panic: %s [scenario %s, %s]", r.panicMsg, sc.name, fresh), replay)
		}
		if r.crash != "" {
			panics++
			addViol("crash", fmt.Sprintf("process crashed: %s [scenario %s, %s]", r.crash, sc.name, fresh), replay)
		}
	}
	for _, v := range viols {
		c.Viol(v.what, v.replay)
	}
	c.Info("race_detector", raceOn)
	c.Info("programs", strconv.Itoa(len(progs)))
	c.Info("race_reports", strconv.Itoa(races))
	c.Info("mixed_up_entries", strconv.Itoa(mixups))
	c.Info("deadlocks", strconv.Itoa(deads))
	c.Info("watchdog_expiries", strconv.Itoa(expiries))
	c.Info("programs_not_run_after_deadlocks", strconv.Itoa(nskipped))
	c.Info("unexpected_panics", strconv.Itoa(panics))
	c.Info("expected_panics_recovered", strconv.Itoa(expected))
}

// run exactly program idx in its own child
func c09runOne(exe string, seed uint64, thorough bool, idx int, res []c09res, limit time.Duration) {
	os.Setenv("C09_TO", strconv.Itoa(idx+1))
	defer os.Unsetenv("C09_TO")
	c09runChild(exe, seed, thorough, idx, res, limit)
}

// the race-built copy is used only when it was built after this binary (same run of the
// runner: it builds zapdrive, then zapdrive-race), never a stale one from another tree
func c09fresh(cand, self string) bool {
	a, err := os.Stat(cand)
	if err != nil {
		return false
	}
	b, err := os.Stat(self)
	if err != nil {
		return false
	}
	return !a.ModTime().Before(b.ModTime())
}

package main

import (
	"context"
	"fmt"
	"io"
	"log"
	"log/slog"
	"os"
	"reflect"
	"strings"
	"sync"
	_ "unsafe" // go:linkname, for the three renamed functions at the end of the table

	"go.uber.org/zap"
	"go.uber.org/zap/zapcore"
	"go.uber.org/zap/zapgrpc"
	"go.uber.org/zap/zapio"
	"go.uber.org/zap/zaptest/observer"
)

// C15, the STACK-CONTEXT dimension of the call-site table.
//
// Sections 1-8 reach every call site from plain harness frames (c15run -> c15deep -> c15wrap -> the
// site): the only frames of package log, of zap or of fmt on the goroutine's stack are the ones the
// front end of that very call puts there.  The property speaks about the user's call site whatever
// ELSE is on the stack further out, so every site is also reached from inside a context:
//   - a String / Error / Format / GoString method that log.Printf, (*log.Logger).Printf / Println /
//     Panicf is formatting (frames of fmt and of package log further out),
//   - the io.Writer an outer *log.Logger writes to through Print / Output / Panicln, also from a
//     goroutine that Write starts, and the *log.Logger slog.NewLogLogger builds,
//   - a slog.Handler / slog.LogValuer of an outer slog call,
//   - a hook, ObjectMarshaler, Stringer field, error field, WriteSyncer or Core of ANOTHER zap logger,
//     its SugaredLogger formatting a Stringer, its std-log bridge, zapio.Writer, zapgrpc
//     (frames prefixed go.uber.org/zap further out, some below a second loggerWriter.Write),
//   - a deferred function while a panic (plain, log.Panic, zap's Panic) unwinds, or on normal return,
//   - sync.Once, reflect.Call, fmt.Sprintf (standard-library frames that are none of the above),
//   - a function whose NAME merely starts with "log." / "go.uber.org/zap" (fabricated with go:linkname;
//     what a package with import path log.example.com/x looks like to strings.HasPrefix).
// A context is entered either right around the site (near: the site's direct caller is the context's
// method) or around the whole c15run chain (far: wrappers, recursion and possibly a goroutine start
// lie between), or both.  The stack c15here() takes on the site's line contains all of it; frames
// whose function name starts with "log." are shipped tagged (Model.v: FL), that prefix being the one
// thing zap's caller path looks at (global.go: stdLogCallerSkip).
//
// A context's own log lines carry the message prefix "ctx:"; only the package-level contexts can
// reach the case's observer (when the case has redirected the package-level logger), and those
// entries are dropped by c15userEntries.

type c15k struct {
	fn   func(*c15h)
	h    *c15h
	done bool // a context calls the site at most once, however often fmt / slog ask
}

type c15kStringer struct{ *c15k }

func (k c15kStringer) String() string {
	if !k.done {
		k.done = true
		k.fn(k.h)
	}
	return "s"
}

type c15kError struct{ *c15k }

func (k c15kError) Error() string {
	if !k.done {
		k.done = true
		k.fn(k.h)
	}
	return "e"
}

type c15kFormatter struct{ *c15k }

func (k c15kFormatter) Format(st fmt.State, verb rune) {
	if !k.done {
		k.done = true
		k.fn(k.h)
	}
	_, _ = io.WriteString(st, "f")
}

type c15kGoStringer struct{ *c15k }

func (k c15kGoStringer) GoString() string {
	if !k.done {
		k.done = true
		k.fn(k.h)
	}
	return "g"
}

type c15kWriter struct{ *c15k }

func (k c15kWriter) Write(p []byte) (int, error) {
	if !k.done {
		k.done = true
		k.fn(k.h)
	}
	return len(p), nil
}
func (k c15kWriter) Sync() error { return nil }

// Write starts a goroutine that makes the call: a goroutine started below log-package frames
type c15kGoWriter struct{ *c15k }

func (k c15kGoWriter) Write(p []byte) (int, error) {
	if !k.done {
		k.done = true
		done := make(chan struct{})
		go func() {
			defer close(done)
			defer func() { _ = recover() }()
			k.fn(k.h)
		}()
		<-done
	}
	return len(p), nil
}

type c15kMarshaler struct{ *c15k }

func (k c15kMarshaler) MarshalLogObject(enc zapcore.ObjectEncoder) error {
	if !k.done {
		k.done = true
		k.fn(k.h)
	}
	return nil
}

type c15kHandler struct{ *c15k }

func (k c15kHandler) Enabled(context.Context, slog.Level) bool { return true }
func (k c15kHandler) Handle(context.Context, slog.Record) error {
	if !k.done {
		k.done = true
		k.fn(k.h)
	}
	return nil
}
func (k c15kHandler) WithAttrs([]slog.Attr) slog.Handler { return k }
func (k c15kHandler) WithGroup(string) slog.Handler      { return k }

type c15kValuer struct{ *c15k }

func (k c15kValuer) LogValue() slog.Value {
	if !k.done {
		k.done = true
		k.fn(k.h)
	}
	return slog.StringValue("v")
}

type c15kCore struct{ *c15k }

func (k c15kCore) Enabled(zapcore.Level) bool        { return true }
func (k c15kCore) With([]zapcore.Field) zapcore.Core { return k }
func (k c15kCore) Check(e zapcore.Entry, ce *zapcore.CheckedEntry) *zapcore.CheckedEntry {
	return ce.AddCore(e, k)
}
func (k c15kCore) Write(zapcore.Entry, []zapcore.Field) error {
	if !k.done {
		k.done = true
		k.fn(k.h)
	}
	return nil
}
func (k c15kCore) Sync() error { return nil }

// not io.Discard: a *log.Logger whose output is io.Discard returns before it formats anything
type c15null struct{}

func (c15null) Write(p []byte) (int, error) { return len(p), nil }

func c15discardLog() *log.Logger { return log.New(c15null{}, "", 0) }

// another zap logger (never the case's): encodes to nowhere; WriteThenPanic keeps Fatal in-process
func c15outerZap(ws zapcore.WriteSyncer, opts ...zap.Option) *zap.Logger {
	if ws == nil {
		ws = zapcore.AddSync(io.Discard)
	}
	core := zapcore.NewCore(zapcore.NewJSONEncoder(zap.NewProductionEncoderConfig()), ws, zapcore.DebugLevel)
	return zap.New(core, append([]zap.Option{zap.WithFatalHook(zapcore.WriteThenPanic)}, opts...)...)
}

func c15hookZap(k *c15k) *zap.Logger {
	return c15outerZap(nil, zap.Hooks(func(zapcore.Entry) error {
		if !k.done {
			k.done = true
			k.fn(k.h)
		}
		return nil
	}))
}

// the package-level functions of log write to os.Stderr unless the case has redirected them
func c15pkgLog(f func()) {
	if log.Writer() == io.Writer(os.Stderr) {
		log.SetOutput(c15null{})
		defer log.SetOutput(os.Stderr)
	}
	f()
}

// a function of the harness whose NAME starts with "log." / "go.uber.org/zap."
//
//go:linkname c15logNest log.c15nest
//go:noinline
func c15logNest(fn func(*c15h), h *c15h) { fn(h) }

//go:linkname c15zapNest go.uber.org/zap.c15nest
//go:noinline
func c15zapNest(fn func(*c15h), h *c15h) { fn(h) }

//go:linkname c15zapcoreNest go.uber.org/zap/zapcore.c15nest
//go:noinline
func c15zapcoreNest(fn func(*c15h), h *c15h) { fn(h) }

type c15ctx struct {
	name   string
	marker string // part of a function name that is on the stack exactly when the context was really entered
	logfr  bool   // the context puts "log."-prefixed frames on the stack
	enter  func(k *c15k)
}

var c15ctxs = []c15ctx{
	{"plain", "", false, func(k *c15k) { k.fn(k.h) }},
	// ---- methods that the log package's formatting calls
	{"Stringer<-log.Logger.Printf", "log.(*Logger).Printf", true, func(k *c15k) { c15discardLog().Printf("ctx:%v", c15kStringer{k}) }},
	{"error<-log.Logger.Println", "log.(*Logger).Println", true, func(k *c15k) { c15discardLog().Println("ctx:", c15kError{k}) }},
	{"Stringer<-log.Logger.Print", "log.(*Logger).Print", true, func(k *c15k) { c15discardLog().Print("ctx:", c15kStringer{k}) }},
	{"GoStringer<-log.Logger.Panicf", "log.(*Logger).Panicf", true, func(k *c15k) { c15discardLog().Panicf("ctx:%#v", c15kGoStringer{k}) }},
	{"Formatter<-log.Printf", "log.Printf", true, func(k *c15k) { c15pkgLog(func() { log.Printf("ctx:%v", c15kFormatter{k}) }) }},
	{"Stringer<-log.Print", "log.Print", true, func(k *c15k) { c15pkgLog(func() { log.Print("ctx:", c15kStringer{k}) }) }},
	{"error<-log.Panicln", "log.Panicln", true, func(k *c15k) { c15pkgLog(func() { log.Panicln("ctx:", c15kError{k}) }) }},
	// ---- the io.Writer of an outer *log.Logger
	{"Writer<-log.Logger.Print", "log.(*Logger).output", true, func(k *c15k) { log.New(c15kWriter{k}, "", 0).Print("ctx:w") }},
	{"Writer<-log.Logger.Output", "log.(*Logger).Output", true, func(k *c15k) { _ = log.New(c15kWriter{k}, "p ", log.LstdFlags).Output(1, "ctx:w") }},
	{"Writer<-log.Logger.Panicln", "log.(*Logger).Panicln", true, func(k *c15k) { log.New(c15kWriter{k}, "", log.Lshortfile).Panicln("ctx:w") }},
	{"goroutine<-Writer<-log.Logger.Print", "c15kGoWriter.Write.func1", false, func(k *c15k) { log.New(c15kGoWriter{k}, "", 0).Print("ctx:w") }},
	{"Handler<-slog.NewLogLogger.Print", "log/slog.(*handlerWriter).Write", true, func(k *c15k) { slog.NewLogLogger(c15kHandler{k}, slog.LevelInfo).Print("ctx:w") }},
	// ---- log/slog (the prefix is "log/", not "log.")
	{"Handler<-slog.Info", "log/slog.(*Logger).Info", false, func(k *c15k) { slog.New(c15kHandler{k}).Info("ctx:s") }},
	{"LogValuer<-slog.TextHandler", "c15kValuer.LogValue", false, func(k *c15k) {
		slog.New(slog.NewTextHandler(io.Discard, nil)).Info("ctx:s", "k", c15kValuer{k})
	}},
	// ---- another zap logger
	{"zap.Hooks", "zapcore.(*hooked).Write", false, func(k *c15k) { c15hookZap(k).Info("ctx:z") }},
	{"ObjectMarshaler<-zap.Logger.Error", "c15kMarshaler.MarshalLogObject", false, func(k *c15k) { c15outerZap(nil).Error("ctx:z", zap.Object("o", c15kMarshaler{k})) }},
	{"Stringer field<-zap.Logger.Info", "zapcore.encodeStringer", false, func(k *c15k) { c15outerZap(nil).Info("ctx:z", zap.Stringer("s", c15kStringer{k})) }},
	{"error field<-zap.Logger.Warn", "zapcore.encodeError", false, func(k *c15k) { c15outerZap(nil).Warn("ctx:z", zap.Error(c15kError{k})) }},
	{"WriteSyncer<-zap.Logger.Info", "zapcore.(*ioCore).Write", false, func(k *c15k) { c15outerZap(c15kWriter{k}).Info("ctx:z") }},
	{"Core<-zap.Logger.Check.Write", "zapcore.(*CheckedEntry).Write", false, func(k *c15k) {
		if ce := zap.New(c15kCore{k}).Check(zapcore.InfoLevel, "ctx:z"); ce != nil {
			ce.Write()
		}
	}},
	{"Stringer<-zap.SugaredLogger.Infof", "zap.(*SugaredLogger).Infof", false, func(k *c15k) { c15outerZap(nil).Sugar().Infof("ctx:%v", c15kStringer{k}) }},
	{"Stringer<-zap.SugaredLogger.Infow", "zap.(*SugaredLogger).Infow", false, func(k *c15k) { c15outerZap(nil).Sugar().Infow("ctx:z", "k", c15kStringer{k}) }},
	{"zap.Hooks<-zap.NewStdLog.Print", "zap.(*loggerWriter).Write", true, func(k *c15k) { zap.NewStdLog(c15hookZap(k)).Print("ctx:b") }},
	{"Stringer<-zap.NewStdLog.Printf", "log.(*Logger).Printf", true, func(k *c15k) { zap.NewStdLog(c15outerZap(nil)).Printf("ctx:%v", c15kStringer{k}) }},
	{"zap.Hooks<-zapio.Writer", "zapio.(*Writer).", false, func(k *c15k) {
		w := &zapio.Writer{Log: c15hookZap(k), Level: zapcore.WarnLevel}
		_, _ = w.Write([]byte("ctx:io\n"))
	}},
	{"zap.Hooks<-zapgrpc.Logger.Warningf", "zapgrpc.(*Logger).Warningf", false, func(k *c15k) { zapgrpc.NewLogger(c15hookZap(k)).Warningf("ctx:%d", 1) }},
	{"Core<-zapcore.NewTee(AddCaller+AddStacktrace)", "zapcore.(*CheckedEntry).Write", false, func(k *c15k) {
		oc, _ := observer.New(zapcore.DebugLevel)
		zap.New(zapcore.NewTee(oc, c15kCore{k}), zap.AddCaller(), zap.AddStacktrace(zapcore.DebugLevel)).Named("ctx").Debug("ctx:z")
	}},
	// ---- deferred functions
	{"defer<-panic", "runtime.gopanic", false, func(k *c15k) {
		defer k.fn(k.h)
		panic("ctx:p")
	}},
	{"defer<-log.Logger.Panic", "log.(*Logger).Panic", true, func(k *c15k) {
		defer k.fn(k.h)
		c15discardLog().Panic("ctx:p")
	}},
	{"defer<-zap.Logger.Panic", "zap.(*Logger).Panic", false, func(k *c15k) {
		defer k.fn(k.h)
		c15outerZap(nil).Panic("ctx:p")
	}},
	{"defer<-return", "", false, func(k *c15k) {
		defer k.fn(k.h)
	}},
	// ---- standard-library frames that are neither log nor zap
	{"sync.Once.Do", "sync.(*Once).doSlow", false, func(k *c15k) { new(sync.Once).Do(func() { k.fn(k.h) }) }},
	{"reflect.Value.Call", "reflect.Value.Call", false, func(k *c15k) {
		reflect.ValueOf(k.fn).Call([]reflect.Value{reflect.ValueOf(k.h)})
	}},
	{"Stringer<-fmt.Sprintf", "fmt.Sprintf", false, func(k *c15k) { _ = fmt.Sprintf("ctx:%v", c15kStringer{k}) }},
	// ---- names that merely carry the prefix
	{"func named log.c15nest", "log.c15nest", true, func(k *c15k) { c15logNest(k.fn, k.h) }},
	{"func named go.uber.org/zap.c15nest", "go.uber.org/zap.c15nest", false, func(k *c15k) { c15zapNest(k.fn, k.h) }},
	{"func named go.uber.org/zap/zapcore.c15nest", "go.uber.org/zap/zapcore.c15nest", false, func(k *c15k) { c15zapcoreNest(k.fn, k.h) }},
}

// c15enter calls fn(h) from inside context ci.  Whatever the context or the call panics with
// (Panic-level entries, log.Panic*, the panic the deferred contexts raise) stops here.
//
//go:noinline
func c15enter(ci int, fn func(*c15h), h *c15h) {
	defer func() { _ = recover() }()
	c15ctxs[ci].enter(&c15k{fn: fn, h: h})
}

// c15runCtx: c15run with the site entered through context near (right around the site) and the
// whole chain entered through context far (0 = none)
//
//go:noinline
func c15runCtx(near, far, n, w int, goroutine bool, fn func(*c15h), h *c15h) {
	if near != 0 {
		site := fn
		fn = func(h *c15h) { c15enter(near, site, h) }
	}
	if far != 0 {
		c15enter(far, func(h *c15h) { c15run(n, w, goroutine, fn, h) }, h)
		return
	}
	c15run(n, w, goroutine, fn, h)
}

func c15ctxLabel(near, far int) string {
	return strings.NewReplacer(",", ";", "=", ":", " ", "_").Replace(c15ctxs[near].name + "|" + c15ctxs[far].name)
}

// the entries of the user's call: everything the observer saw except the contexts' own lines
func c15userEntries(all []observer.LoggedEntry) []observer.LoggedEntry {
	out := all[:0:0]
	for _, e := range all {
		if strings.HasPrefix(e.Message, "ctx:") {
			continue
		}
		out = append(out, e)
	}
	return out
}

// the user's stack on the wire: a frame whose function name starts with "log." is tagged
func c15usSX(us []int) SX {
	xs := make([]SX, len(us))
	for i, id := range us {
		if c15logTagged[id] {
			xs[i] = L(I(id), I(1))
		} else {
			xs[i] = I(id)
		}
	}
	return L(xs...)
}

var c15logTagged = map[int]bool{}

// the harness checks itself: the context a case names is on the stack the site recorded
func c15ctxsOnStack(near, far int, us []int) bool {
	if !c15ctxOnStack(near, us) {
		return false
	}
	// the site runs on a goroutine of its own: nothing further out is on its stack
	return strings.HasPrefix(c15ctxs[near].name, "goroutine<-") || c15ctxOnStack(far, us)
}

func c15ctxOnStack(ci int, us []int) bool {
	m := c15ctxs[ci].marker
	if ci == 0 || m == "" {
		return true
	}
	for _, id := range us[1:] {
		if strings.Contains(c15names[id].fn, m) {
			return true
		}
	}
	return false
}

// ---- generators (section 9 of c15) ----

func c15contexts(c *Ctx) {
	all := c15en{kind: 0, t: -1}
	c.Info("stack_contexts", fmt.Sprint(len(c15ctxs)-1))
	mk := func(si, near, far, n, w, skip int, withStack bool, class string) {
		st := c15sites[si]
		cs := &c15case{site: si, reflectID: -1, core: c15debug, near: near, far: far, n: n, w: w, class: class}
		if st.kind == 3 {
			cs.hopts = []c15opt{{k: 0, b: true}}
			if skip > 0 {
				cs.hopts = append(cs.hopts, c15opt{k: 1, n: skip})
			}
			if withStack {
				cs.hopts = append(cs.hopts, c15opt{k: 2, n: -8})
			}
			if st.a < 8 {
				cs.slvl = []int{-4, 0, 4, 8}[st.a%4]
			}
		} else {
			var sp *c15en
			if withStack {
				sp = &all
			}
			cs.chain = c15fit([]c15conv{{k: 5, opts: c15optsCaller(skip, sp)}}, st.kind)
		}
		c15emit(c, cs)
	}
	// 9a. every call site x every context, entered right around the site: the configured skip
	// walks from the site into the context's own frames (the method, fmt, log, zap)
	// 9b. every call site x every context entered around the whole chain: wrappers with a matching
	// skip, a few recursion frames in between
	for si := range c15sites {
		for ci := 1; ci < len(c15ctxs); ci++ {
			mk(si, ci, 0, 0, ci%2, []int{0, 0, 1, 2, 3, 5}[(si+ci)%6], (si+ci)%2 == 0, "ctx-near")
			w := (si + ci) % 4
			mk(si, 0, ci, []int{0, 1, 3, 6}[ci%4], w, w, (si+ci)%2 == 1, "ctx-far")
		}
	}
	// 9c. the std-log bridge scans a window of 16 frames above loggerWriter.Write: move the context's
	// log-package frames through every position of that window and beyond (recursion depth 0..15),
	// every std-log function in turn; then far beyond the pooled 64-entry slab, with the trace
	var std []int
	for i, st := range c15sites {
		if st.kind == 2 {
			std = append(std, i)
		}
	}
	k := 0
	for ci := 1; ci < len(c15ctxs); ci++ {
		if !c15ctxs[ci].logfr {
			continue
		}
		for n := 0; n <= 15; n++ {
			for j := 0; j < 3; j++ {
				k++
				mk(std[k%len(std)], 0, ci, n, k%2, 0, false, "ctx-window")
			}
		}
		for _, n := range []int{40, 62, 70, 130} {
			k++
			mk(std[k%len(std)], 0, ci, n, k%2, 0, true, "ctx-deep")
			mk(std[(k+5)%len(std)], ci, (ci+7)%len(c15ctxs), n, 0, 1, true, "ctx-deep")
		}
	}
	// 9d. contexts inside contexts: every ordered pair (near, far) on one std-log and one other site each
	for a := 1; a < len(c15ctxs); a++ {
		for b := 1; b < len(c15ctxs); b++ {
			k++
			si := std[k%len(std)]
			if (a+b)%3 == 0 {
				si = (a*len(c15ctxs) + b) % len(c15sites)
			}
			mk(si, a, b, (a+b)%3, b%2, (a+b)%2, (a*b)%5 == 0, "ctx-pair")
		}
	}
}

module zapverif/harness

go 1.21

require (
	go.uber.org/zap v1.26.0
	go.uber.org/zap/exp v0.0.0
)

require go.uber.org/multierr v1.10.0 // indirect

replace go.uber.org/zap => /repo

replace go.uber.org/zap/exp => /repo/exp

package main

// SplitMix64: every random choice of a run derives from one state, so a
// disagreement replays exactly from (property, seed, case index).
type RNG struct{ s uint64 }

// NewRNG mixes the seed through the SplitMix64 finaliser, so that consecutive seeds
// give unrelated streams (seed k+1 is NOT seed k shifted by one draw).
func NewRNG(seed uint64) *RNG {
	t := &RNG{s: seed}
	return &RNG{s: t.Next() ^ 0xA5A5A5A5DEADBEEF}
}
func (r *RNG) Next() uint64 {
	r.s += 0x9E3779B97F4A7C15
	z := r.s
	z = (z ^ (z >> 30)) * 0xBF58476D1CE4E5B9
	z = (z ^ (z >> 27)) * 0x94D049BB133111EB
	return z ^ (z >> 31)
}
func (r *RNG) Intn(n int) int {
	if n <= 0 {
		return 0
	}
	return int(r.Next() % uint64(n))
}
func (r *RNG) Bool() bool          { return r.Next()&1 == 1 }
func (r *RNG) Chance(p int) bool   { return r.Intn(100) < p } // p percent
func (r *RNG) Range(lo, hi int) int { return lo + r.Intn(hi-lo+1) }
func (r *RNG) Fork() *RNG          { return &RNG{s: r.Next()} }
func (r *RNG) Bytes(n int, alphabet []byte) []byte {
	out := make([]byte, n)
	for i := range out {
		out[i] = alphabet[r.Intn(len(alphabet))]
	}
	return out
}

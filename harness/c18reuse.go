package main

import (
	"fmt"
	"log/slog"
	"math"
)

// C18, reuse of caller-owned values.
//
// A slog.Attr / slog.Record is a value the CALLER owns and keeps using: the same group
// attribute is logged in several records, handed to several WithAttrs calls (siblings) and to
// several handlers.  slog.Value.Group() returns the caller's backing array, not a copy, and a
// Record's attrs beyond the fifth live in a slice shared by every copy of the Record, so a
// handler that writes into what it was handed (e.g. resolves LogValuers in place) changes every
// later use.  With constant LogValuers and attributes rebuilt for each call that is invisible.
//
//   - c18ctr is a LogValuer whose result is a function of the resolution count (the k-th call
//     of LogValue() returns result(k)); the case text of every command carries, for each
//     occurrence, the value of THAT resolution: (3 value id k).  The handler converts an
//     attribute list in order, depth first, resolving every LogValuer occurrence afresh, so the
//     occurrence numbered j of valuer c in a call made when c has been resolved n times is
//     result(n+j).  n is read from the valuer just before the call (nothing is assumed about
//     how often earlier calls resolved it).
//   - c18tmpl is the harness-side blueprint of an attribute.  The attribute handed to zap is
//     built ONCE per program and reused; the case text is read back from a pristine rebuild of
//     the blueprint (same valuers, fresh slices), never from the values zap has already seen.
//   - after every WithAttrs / Handle / LogAttrs call the caller's attributes (and the Record's)
//     are compared with a snapshot taken just before: same kinds, same keys, same scalars, same
//     LogValuer identity, recursively through groups and through what stored LogValuers hold.

type c18ctr struct {
	id   int
	n    int64 // resolutions so far
	mode int
	tmpl []*c18tmpl // mode 5: blueprint of the stored group
	live slog.Value // mode 5: the stored group, built once and returned by every resolution
	next *c18ctr    // mode 6: resolves to another LogValuer
}

func (c *c18ctr) LogValue() slog.Value {
	c.n++
	return c.result(c.n, false)
}

// result: what the k-th resolution returns (k >= 1).  pristine: rebuild stored values from their
// blueprint instead of returning the live ones.
func (c *c18ctr) result(k int64, pristine bool) slog.Value {
	switch c.mode {
	case 0:
		return slog.Int64Value(int64(c.id)*1000 + k)
	case 1:
		return slog.StringValue(fmt.Sprintf("c%d#%d", c.id, k))
	case 2: // a fresh group whose members depend on k
		return slog.GroupValue(slog.Int64("n", k), slog.String("s", fmt.Sprintf("r%d", k)))
	case 3: // something to show on odd resolutions only
		if k%2 == 1 {
			return slog.Uint64Value(uint64(k))
		}
		return slog.GroupValue()
	case 4: // the zero Value on odd resolutions
		if k%2 == 1 {
			return slog.Value{}
		}
		return slog.DurationValue(1 << uint(k%40))
	case 5: // a stored group (shared backing array), possibly holding other valuers
		if pristine {
			return slog.GroupValue(c18buildAll(c.tmpl)...)
		}
		return c.live
	case 6:
		return slog.AnyValue(c.next)
	default: // three-phase: group of one scalar, bool, empty group
		switch k % 3 {
		case 0:
			return slog.GroupValue(slog.Int64("p", k))
		case 1:
			return slog.BoolValue(k%2 == 1)
		}
		return slog.GroupValue()
	}
}

type c18tmpl struct {
	key  string
	leaf slog.Value // neither group nor counter: a constant value, shared by every build
	grp  bool
	kids []*c18tmpl
	ctr  *c18ctr
}

func (t *c18tmpl) build() slog.Attr {
	switch {
	case t.ctr != nil:
		return slog.Attr{Key: t.key, Value: slog.AnyValue(t.ctr)}
	case t.grp:
		return slog.Attr{Key: t.key, Value: slog.GroupValue(c18buildAll(t.kids)...)}
	}
	return slog.Attr{Key: t.key, Value: t.leaf}
}

func c18buildAll(ts []*c18tmpl) []slog.Attr {
	out := make([]slog.Attr, len(ts))
	for i, t := range ts {
		out[i] = t.build()
	}
	return out
}

func (t *c18tmpl) hasCtrInGroup(inGroup bool) bool {
	if t.ctr != nil {
		return inGroup || t.ctr.mode == 5
	}
	for _, k := range t.kids {
		if k.hasCtrInGroup(true) {
			return true
		}
	}
	return false
}

// ---------- snapshot of caller-owned values ----------

type c18snapT struct {
	key  string
	kind slog.Kind
	ctr  *c18ctr
	val  slog.Value
	kids []c18snapT
}

func c18snapValue(key string, v slog.Value) c18snapT {
	s := c18snapT{key: key, kind: v.Kind(), val: v}
	switch v.Kind() {
	case slog.KindGroup:
		s.kids = c18snap(v.Group())
	case slog.KindLogValuer:
		switch lv := v.LogValuer().(type) {
		case *c18ctr:
			s.ctr = lv
			if lv.mode == 5 {
				s.kids = []c18snapT{c18snapValue("", lv.live)}
			}
		case c18lv:
			s.kids = []c18snapT{c18snapValue("", lv.v)}
		}
	}
	return s
}

func c18snap(attrs []slog.Attr) []c18snapT {
	out := make([]c18snapT, len(attrs))
	for i, a := range attrs {
		out[i] = c18snapValue(a.Key, a.Value)
	}
	return out
}

func c18scalarSame(a, b slog.Value) bool {
	switch a.Kind() {
	case slog.KindFloat64:
		return math.Float64bits(a.Float64()) == math.Float64bits(b.Float64())
	case slog.KindBool, slog.KindDuration, slog.KindInt64, slog.KindString, slog.KindTime, slog.KindUint64:
		return a.Equal(b)
	case slog.KindAny:
		return (a.Any() == nil) == (b.Any() == nil)
	}
	return true
}

// c18snapDiff: "" when the values are what the snapshot recorded, else where and how they differ
func c18snapDiffValue(path string, v slog.Value, s c18snapT) string {
	if v.Kind() != s.kind {
		return fmt.Sprintf("%s: was %v, now %v (%v)", path, s.kind, v.Kind(), v)
	}
	switch v.Kind() {
	case slog.KindGroup:
		return c18snapDiff(path, v.Group(), s.kids)
	case slog.KindLogValuer:
		switch lv := v.LogValuer().(type) {
		case *c18ctr:
			if lv != s.ctr {
				return path + ": another LogValuer than before"
			}
			if lv.mode == 5 {
				return c18snapDiffValue(path+"->LogValue()", lv.live, s.kids[0])
			}
		case c18lv:
			if len(s.kids) != 1 {
				return path + ": another LogValuer than before"
			}
			return c18snapDiffValue(path+"->LogValue()", lv.v, s.kids[0])
		}
		return ""
	}
	if !c18scalarSame(v, s.val) {
		return fmt.Sprintf("%s: was %v, now %v", path, s.val, v)
	}
	return ""
}

func c18snapDiff(path string, attrs []slog.Attr, snap []c18snapT) string {
	if len(attrs) != len(snap) {
		return fmt.Sprintf("%s: had %d attrs, now %d", path, len(snap), len(attrs))
	}
	for i, a := range attrs {
		p := fmt.Sprintf("%s[%d %q]", path, i, a.Key)
		if a.Key != snap[i].key {
			return fmt.Sprintf("%s: key was %q", p, snap[i].key)
		}
		if d := c18snapDiffValue(p, a.Value, snap[i]); d != "" {
			return d
		}
	}
	return ""
}

func c18recordAttrs(rec slog.Record) []slog.Attr {
	var seen []slog.Attr
	rec.Attrs(func(a slog.Attr) bool { seen = append(seen, a); return true })
	return seen
}

// ---------- programs that reuse attributes and records ----------

// one attribute set of a program: the live slice (handed to zap again and again) and its blueprint
type c18set struct {
	id    int
	tm    []*c18tmpl
	live  []slog.Attr
	level slog.Level // of the shared Record built from this set
	msg   string
}

func c18newSet(id int, tm ...*c18tmpl) *c18set {
	return &c18set{id: id, tm: tm, live: c18buildAll(tm), msg: fmt.Sprintf("s%d", id)}
}

func (s *c18set) pristine() []slog.Attr { return c18buildAll(s.tm) }

// commands over a set.  share: the Record is built on first use and the same Record value is
// handed to every later Handle; same: the caller's slice itself is passed (no copy).
func (s *c18set) with(p int, same bool) c18cmd {
	return c18cmd{kind: 1, parent: p, attrs: s.live, pristine: s.pristine, same: same}
}
func (s *c18set) handle(h int, share int) c18cmd {
	if share != 0 {
		share += 4 * s.id // the Records of different sets are different Records
	}
	return c18cmd{kind: 2, parent: h, level: s.level, msg: s.msg, attrs: s.live, pristine: s.pristine, share: share}
}
func (s *c18set) log(h int, same bool) c18cmd {
	return c18cmd{kind: 4, parent: h, level: s.level, msg: s.msg, attrs: s.live, pristine: s.pristine, same: same}
}

func c18newCtr(id, mode int) *c18ctr { return &c18ctr{id: id, mode: mode} }
func c18stored(id int, tm ...*c18tmpl) *c18ctr {
	c := &c18ctr{id: id, mode: 5, tmpl: tm}
	c.live = slog.GroupValue(c18buildAll(tm)...)
	return c
}
func tC(k string, c *c18ctr) *c18tmpl        { return &c18tmpl{key: k, ctr: c} }
func tG(k string, kids ...*c18tmpl) *c18tmpl { return &c18tmpl{key: k, grp: true, kids: kids} }
func tL(a slog.Attr) *c18tmpl                { return &c18tmpl{key: a.Key, leaf: a.Value} }

func c18reuseDirected(c *Ctx) {
	G := func(p int, g string) c18cmd { return c18cmd{kind: 0, parent: p, group: g} }
	x1 := tL(slog.Int("x", 1))
	id := tL(slog.String("id", "r1"))
	type mk func() (int, []c18cmd)
	progs := []mk{
		// the same group attribute logged in three records (fresh Records, then one shared Record)
		func() (int, []c18cmd) {
			s := c18newSet(1, tG("req", id, tC("seq", c18newCtr(1, 0))))
			return 15, []c18cmd{s.handle(0, 0), s.handle(0, 0), s.handle(0, 0), s.handle(0, 1), s.handle(0, 1), s.log(0, true), s.log(0, false)}
		},
		// two sibling derivations given the same nested group, under an open group
		func() (int, []c18cmd) {
			s := c18newSet(1, tG("outer", tG("inner", tC("seq", c18newCtr(1, 1)))))
			e := c18newSet(2)
			return 15, []c18cmd{G(0, "G"), s.with(1, true), s.with(1, true), s.with(1, false), e.handle(2, 0), e.handle(3, 0), e.handle(4, 0), s.handle(2, 0), s.handle(1, 0)}
		},
		// inline groups, a valuer at top level and the same valuer twice in one call
		func() (int, []c18cmd) {
			k := c18newCtr(1, 0)
			s := c18newSet(1, tC("top", k), tG("", tC("in", k), tG("", tC("deep", k))), x1)
			return 15, []c18cmd{s.handle(0, 1), s.with(0, true), s.handle(1, 1), s.handle(0, 1), s.log(1, true)}
		},
		// emptiness changes from one use to the next: the pending groups open in some records only
		func() (int, []c18cmd) {
			s := c18newSet(1, tG("g", tC("a", c18newCtr(1, 3)), tC("", c18newCtr(2, 4))), tG("", tC("", c18newCtr(3, 7))))
			return 15, []c18cmd{G(0, "P"), G(1, "Q"), s.handle(2, 1), s.handle(2, 1), s.handle(2, 1), s.with(2, true), s.with(2, true), s.handle(3, 1), s.handle(4, 1), s.handle(2, 1), s.handle(0, 1)}
		},
		// a valuer that returns a stored group holding another valuer; a chain of valuers
		func() (int, []c18cmd) {
			in := c18newCtr(1, 0)
			st := c18stored(2, x1, tC("seq", in), tG("h", tC("seq2", in)))
			ch := &c18ctr{id: 3, mode: 6, next: st}
			s := c18newSet(1, tC("lv", st), tG("w", tC("", ch)))
			return 15, []c18cmd{s.handle(0, 0), s.handle(0, 0), s.with(0, false), s.handle(1, 1), s.handle(1, 1)}
		},
		// more than the five attrs a Record keeps inline: the rest is in a slice shared by its copies
		func() (int, []c18cmd) {
			a, b := c18newCtr(1, 0), c18newCtr(2, 2)
			s := c18newSet(1, x1, x1, x1, x1, x1, tC("six", a), tG("seven", tC("v", b), tC("w", a)), tC("", b))
			return 15, []c18cmd{s.handle(0, 1), s.handle(0, 1), G(0, "G"), s.handle(1, 1), s.with(1, true), s.handle(2, 1), s.log(2, true)}
		},
		// uses that are not handled (level disabled) do not count; the level moves in between
		func() (int, []c18cmd) {
			s := c18newSet(1, tG("g", tC("seq", c18newCtr(1, 0))))
			s.level = 4
			return 8, []c18cmd{s.handle(0, 1), s.log(0, true), {kind: 3, mask: 15}, s.handle(0, 1), s.with(0, true), {kind: 3, mask: 8}, s.handle(1, 1), {kind: 3, mask: 12}, s.handle(1, 1), s.log(0, true)}
		},
	}
	for i, p := range progs {
		mask, cmds := p()
		name := ""
		if i%3 == 2 {
			name = "reuse"
		}
		c18run(c, mask, name, cmds, "reuse-directed")
	}
}

func c18reuseTmpl(r *RNG, ctrs []*c18ctr, depth int, inGroup bool) *c18tmpl {
	x := r.Intn(100)
	switch {
	case x < 40 || inGroup && x < 55:
		k := c18key(r)
		if r.Chance(15) {
			k = ""
		}
		return tC(k, ctrs[r.Intn(len(ctrs))])
	case x < 80 && depth > 0:
		n := r.Range(1, 3)
		kids := make([]*c18tmpl, n)
		for i := range kids {
			kids[i] = c18reuseTmpl(r, ctrs, depth-1, true)
		}
		k := c18key(r)
		if r.Chance(25) {
			k = ""
		}
		return tG(k, kids...)
	}
	return tL(c18attr(r, 1))
}

func c18reuse(c *Ctx, r *RNG, n int) {
	for k := 0; k < n; k++ {
		// valuers: plain ones first, then stored groups / chains over the earlier ones
		nc := r.Range(1, 4)
		ctrs := make([]*c18ctr, 0, nc+2)
		for i := 0; i < nc; i++ {
			m := []int{0, 0, 1, 2, 3, 4, 7}[r.Intn(7)]
			ctrs = append(ctrs, c18newCtr(i+1, m))
		}
		if r.Chance(35) {
			nk := r.Range(1, 3)
			kids := make([]*c18tmpl, nk)
			for i := range kids {
				kids[i] = c18reuseTmpl(r, ctrs, 1, true)
			}
			ctrs = append(ctrs, c18stored(len(ctrs)+1, kids...))
		}
		if r.Chance(20) {
			ctrs = append(ctrs, &c18ctr{id: len(ctrs) + 1, mode: 6, next: ctrs[r.Intn(len(ctrs))]})
		}
		// attribute blueprints; the first one always has a valuer inside a group
		nt := r.Range(1, 4)
		tms := make([]*c18tmpl, nt)
		for i := range tms {
			tms[i] = c18reuseTmpl(r, ctrs, r.Range(1, 3), false)
		}
		if !tms[0].hasCtrInGroup(false) {
			key := c18key(r)
			if r.Chance(25) {
				key = ""
			}
			tms[0] = tG(key, tms[0], tC(c18key(r), ctrs[r.Intn(len(ctrs))]))
		}
		// sets: the slices the caller keeps and passes again and again
		ns := r.Range(1, 3)
		sets := make([]*c18set, ns)
		for j := range sets {
			m := r.Range(1, 3)
			if r.Chance(12) {
				m = r.Range(6, 8)
			}
			tm := make([]*c18tmpl, m)
			for i := range tm {
				tm[i] = tms[r.Intn(nt)]
			}
			if j == 0 {
				tm[r.Intn(m)] = tms[0]
			}
			sets[j] = c18newSet(j+1, tm...)
			sets[j].level = []slog.Level{0, 0, 4, 8, -4, 3}[r.Intn(6)]
		}
		moves := r.Chance(25)
		mask := 15
		if moves {
			mask = c18thresholds[r.Intn(len(c18thresholds))]
		}
		ncmd := r.Range(4, 18)
		depths := []int{0}
		var p []c18cmd
		for i := 0; i < ncmd; i++ {
			s := sets[r.Intn(ns)]
			if r.Chance(40) {
				s = sets[0]
			}
			x := r.Intn(100)
			if i == ncmd-1 && x < 45 {
				x = 99
			}
			h := r.Intn(len(depths))
			if r.Chance(30) {
				h = len(depths) - 1
			}
			switch {
			case x < 15:
				if depths[h] >= 8 {
					h = 0
				}
				g := c18groupNames[r.Intn(len(c18groupNames))]
				if r.Chance(10) {
					g = ""
				}
				p = append(p, c18cmd{kind: 0, parent: h, group: g})
				depths = append(depths, depths[h]+1)
			case x < 38:
				if depths[h] >= 8 {
					h = 0
				}
				p = append(p, s.with(h, r.Chance(70)))
				depths = append(depths, depths[h]+1)
			case x < 45 && moves:
				p = append(p, c18cmd{kind: 3, mask: c18thresholds[r.Intn(len(c18thresholds))]})
			case x < 70:
				p = append(p, s.handle(h, 1+r.Intn(2))) // one of two shared Records per set
			case x < 85:
				p = append(p, s.handle(h, 0))
			default:
				p = append(p, s.log(h, r.Bool()))
			}
		}
		name := ""
		if r.Chance(20) {
			name = "svc." + c18groupNames[r.Intn(len(c18groupNames))]
		}
		enabler := 0
		if moves && r.Bool() {
			enabler = 1
		}
		c18runDyn(c, mask, name, p, "reuse", enabler)
	}
}

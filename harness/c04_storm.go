package main

import (
	"runtime"
	"sync"

	"go.uber.org/zap/zapcore"
)

// C04, console storm (seed c04i).  The console encoder builds every line from TWO pooled buffers: the
// line buffer and a context buffer (a clone of the core's JSON encoder into which the With-context and
// the call-site fields are encoded, then copied into the line).  The JSON encoder has no such second
// buffer.  Whatever goes wrong with the ownership of that context buffer / encoder clone INSIDE
// EncodeEntry -- released a few instructions before its last read, released on one path and used on
// another, returned to the pool while the line still aliases it -- is invisible sequentially (Free
// does not wipe the bytes) and needs another goroutine to draw the same buffer from the pool within a
// window of a few instructions up to one copy of the context.  A goroutine gets there only when the
// owner is descheduled inside the window: asynchronous preemption, or a garbage collection (its
// stop-the-world phases deschedule every running goroutine at once, and sync.Pool moves the per-P
// caches to the victim caches, from where the next Get of ANY goroutine on that P is served).
// With 2..8 goroutines issuing a few dozen entries this practically never happens; it needs
//   - many goroutines (64..128, several times GOMAXPROCS, GOMAXPROCS >= 8) encoding console entries
//     WITH context at the same time: With-derived children of one console core, the one shared
//     With-child, Named / namespaced children, call-site fields on every entry,
//   - thousands of entries per run, payloads that differ per (goroutine, index) from 7 B to 96 KiB
//     (a bigger context widens the window: the copy and the growth of the line buffer sit inside it;
//     a foreign payload in a line is recognisable),
//   - frequent garbage collections during the concurrent phase (a goroutine of the harness calls
//     runtime.GC in a loop; the big payloads allocate),
//   - several rounds.
// Every line of every round is judged byte for byte by the extracted oracle (exactly once, intact,
// per-goroutine order), like any other case.  The same storm is run against the JSON encoder and a
// JSON + console tee (one storm case each), so that the class is not tied to one encoder.

const (
	c04StormOn = 1 // GOMAXPROCS >= 8 for the run
	c04StormGC = 2 // a goroutine of the harness forces garbage collections during the concurrent phase
	// the recording sinks append each Write at once, without yields and checksums: the critical section
	// is as short as a real sink's, so the goroutines spend their time ENCODING side by side instead of
	// queueing for the sink's mutex with their lines already encoded
	c04StormFast = 4
)

// payload sizes of a storm: mostly small (many entries per second = many passes through the window),
// some of a few KiB, a few of tens of KiB (bounded by bigBudget bytes per case)
var c04stormSizes = []int{7, 7, 7, 7, 20, 20, 20, 40, 40, 40, 100, 100, 100, 100, 300, 300, 2000, 9000, 40000, 96000}

func c04stormThreads(r *RNG, n, perG int, withSync bool, bigBudget int, derivs []int, nNf int) []c04Thread {
	ths := make([]c04Thread, n)
	for g := range ths {
		ths[g].deriv = derivs[(g+r.Intn(2))%len(derivs)]
		for seq := 0; seq < perG; seq++ {
			if withSync && r.Chance(3) {
				ths[g].ops = append(ths[g].ops, c04Op{kind: 1})
				continue
			}
			lvl := []zapcore.Level{zapcore.InfoLevel, zapcore.InfoLevel, zapcore.InfoLevel, zapcore.WarnLevel, zapcore.ErrorLevel, zapcore.DebugLevel, zapcore.DPanicLevel}[r.Intn(7)]
			if lvl == zapcore.DPanicLevel && !withSync {
				lvl = zapcore.InfoLevel
			}
			// sizes as in the seed's demo (7 B .. 96 KiB), drawn per (goroutine, index)
			sz := c04stormSizes[r.Intn(len(c04stormSizes))]
			o := c04Op{kind: 0, fe: r.Intn(4), lvl: lvl, nf: r.Intn(nNf)}
			if r.Chance(8) {
				o.fe = 4 + r.Intn(2) // Sugar Logf / Log: no call-site fields
			}
			if sz <= 300 {
				o.msg = c04msg(r, g, seq, 10+sz)
			} else {
				o.msg = c04msg(r, g, seq, r.Range(12, 40))
				if sz > bigBudget || lvl < zapcore.InfoLevel {
					sz = 300 + r.Intn(400)
				}
				bigBudget -= sz
				o.big = 1 + r.Intn(c04nBig-1)
				if o.fe >= 4 {
					o.big = c04BigMsg
				}
				if o.nf > 4 {
					o.nf = 4
				}
				o.pad = c04bigPad(r, sz+r.Intn(sz/8+1))
			}
			ths[g].ops = append(ths[g].ops, o)
		}
	}
	return ths
}

// what the concurrent run does on top of an ordinary one
func c04stormEnter(cs *c04Case) (leave func()) {
	if cs.storm == 0 {
		return func() {}
	}
	old := runtime.GOMAXPROCS(0)
	if old < 8 {
		runtime.GOMAXPROCS(8)
	}
	return func() { runtime.GOMAXPROCS(old) }
}

// forces garbage collections from the start of the concurrent phase until stop is closed
func c04stormGC(cs *c04Case, wg *sync.WaitGroup, start, stop chan struct{}) {
	if cs.storm&c04StormGC == 0 {
		return
	}
	wg.Add(1)
	go func() {
		defer wg.Done()
		<-start
		for {
			select {
			case <-stop:
				return
			default:
			}
			runtime.GC()
			runtime.Gosched()
		}
	}()
	// a stop-the-world without a collection (the pools keep their per-P caches: the goroutine that runs
	// next on a P draws what the descheduled one has just put back)
	wg.Add(1)
	go func() {
		defer wg.Done()
		<-start
		var ms runtime.MemStats
		for {
			select {
			case <-stop:
				return
			default:
			}
			runtime.ReadMemStats(&ms)
			runtime.Gosched()
		}
	}()
}

// class prefix: console-storm when a console encoder takes part, json-storm otherwise
func (cs *c04Case) stormName() string {
	for _, b := range cs.br {
		if b.console {
			return "console-storm"
		}
	}
	return "json-storm"
}

// the goroutines of a random configuration replaced by a storm (its sinks, encoders, shared contexts,
// fault loggers and hidden tee branch stay)
func c04stormRandom(rs *RNG, cs *c04Case, withSync bool, refl int) {
	derivs := []int{0, 1, 2, 3, 4, 1, 4}
	nNf := 4
	if refl == 1 || refl == 2 {
		derivs = []int{0, 1, 2, 3, 4, 5, 6, 7, 1, 4}
	}
	if refl >= 2 {
		nNf = 8
	}
	cs.th = c04stormThreads(rs, rs.Range(32, 72), rs.Range(8, 24), withSync, 30000, derivs, nNf)
	cs.storm = c04StormOn
	if rs.Chance(75) {
		cs.storm |= c04StormGC
	}
	if rs.Chance(75) {
		cs.storm |= c04StormFast
	}
}

func (cs *c04Case) stormTag() string {
	switch {
	case cs.storm == 0:
		return "-"
	case cs.storm&c04StormGC != 0 && cs.storm&c04StormFast != 0:
		return "gc+fast"
	case cs.storm&c04StormGC != 0:
		return "gc"
	case cs.storm&c04StormFast != 0:
		return "fast"
	}
	return "on"
}

// directed rounds: console cores over every kind of sink, 64..128 goroutines, all the With shapes
func c04stormGrid(c *Ctx, rs *RNG, emit func(cs *c04Case, rr *RNG)) {
	type round struct {
		br     []c04Branch
		n, per int
		mode   int
	}
	rounds := []round{
		// the seed's shape: private With-children of ONE console core over Lock(sink)
		{[]c04Branch{{kind: c04Lock, console: true}}, 64, 100, 0},
		{[]c04Branch{{kind: c04Lock, console: true}}, 128, 45, 1},
		{[]c04Branch{{kind: c04Lock, console: true}}, 96, 60, 2},
		{[]c04Branch{{kind: c04Combine, k: 2, console: true}}, 64, 40, 3},
		{[]c04Branch{{kind: c04LockBuf, size: 4096, console: true}}, 80, 60, 4},
		{[]c04Branch{{kind: c04Lock}, {kind: c04Open, k: 1, console: true}}, 64, 45, 2},
		{[]c04Branch{{kind: c04Lock, console: true}}, 112, 50, 5},
		// the same storm through the JSON encoder
		{[]c04Branch{{kind: c04Lock}}, 64, 40, 2},
	}
	reps := 1
	if c.Thorough {
		reps = 4
	}
	for rep := 0; rep < reps; rep++ {
		for ri, rd := range rounds {
			cs := &c04Case{br: rd.br, storm: c04StormOn | c04StormGC | c04StormFast}
			ws := false
			bigBudget := 250000
			switch rd.mode {
			case 0: // every goroutine its own With-child (With(Int, String)); call-site fields on every entry
				cs.th = c04stormThreads(rs, rd.n, rd.per, ws, bigBudget, []int{1}, 4)
			case 1: // all goroutines on the ONE shared With-child; small payloads mostly
				cs.th = c04stormThreads(rs, rd.n, rd.per, ws, bigBudget/2, []int{4}, 4)
			case 2: // all the plain derivations: base (call-site fields only), With, Named, With+Namespace+Named, shared child
				cs.th = c04stormThreads(rs, rd.n, rd.per, ws, bigBudget, []int{1, 0, 4, 3, 1, 2, 4}, 4)
			case 3: // reflected contexts and call sites as well
				cs.baseCtx = 1 + (rep+ri)%4
				cs.sharedCtx = 1 + rep%2
				cs.callRefl = true
				cs.th = c04stormThreads(rs, rd.n, rd.per, ws, bigBudget/2, []int{1, 5, 4, 7, 6, 1, 4}, 8)
			case 5: // mostly Named children (a second pooled object per line: the slice encoder holds level AND name)
				cs.th = c04stormThreads(rs, rd.n, rd.per, ws, bigBudget/2, []int{2, 3, 2, 1, 2, 3, 4}, 4)
			default: // With-children, Logger.Sync calls, DPanic entries (Sync after the write) and flush ticks
				ws = true
				cs.th = c04stormThreads(rs, rd.n, rd.per, ws, bigBudget/2, []int{1, 4, 3, 1}, 4)
				cs.ticks = 10
			}
			if (rep+ri)%8 == 7 {
				cs.storm &^= c04StormGC // without the forced collections
			}
			emit(cs, rs)
		}
	}
}

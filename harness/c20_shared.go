package main

import (
	"encoding/json"
	"flag"
	"fmt"
	"io"
	"net/http"
	"net/http/httptest"
	"net/url"
	"strings"
	"unicode/utf8"

	"go.uber.org/zap"
	"go.uber.org/zap/zapcore"
	"go.uber.org/zap/zaptest/observer"
	"gopkg.in/yaml.v3"
)

// C20, kind 3: one level, many holders.
//
// An AtomicLevel is a handle on a shared threshold: cores/loggers, the http mux it is registered
// with, zap.Config.Level and plain variables all hold COPIES of it.  A case is a history over such
// holders; after EVERY operation every holder is asked what level is in force, each in its own way.
//
//	case (3 init k0 (op ...))     one AtomicLevel at init in a holder of kind k0 (= holder 0), then
//	    op = (0 h k)              a new holder of kind k gets a copy of holder h's AtomicLevel
//	         (1 l k)              a new holder of kind k gets NewAtomicLevelAt(l)
//	         (2 h #text via)      text decoded into holder h's AtomicLevel; via = 0 UnmarshalText,
//	                              1 flag.TextVar + FlagSet.Parse, 2 encoding/json, 3 yaml.v3 (for a
//	                              Config holder: the document is decoded into the live Config);
//	                              #text = the text the document denotes (oracle)
//	         (3 h l)              SetLevel(l) through holder h
//	         (4 h req)            ServeHTTP(req) through holder h (for a mux: mux.ServeHTTP); req as in kind 2
//	holder kinds: 0 variable  1 live logger (read-only)  2 http.ServeMux  3 zap.Config
//	observation ((res (reading ...)) ...): res = () | ok | (status kind #payload);
//	    reading = Level() | (mask Logger.Level()) | (GET status #body) | cfg.Level.Level()

type c20holder struct {
	kind   int
	lvl    *zap.AtomicLevel // kind 0
	logger *zap.Logger      // kind 1
	taken  func() []zapcore.Level
	mux    *http.ServeMux // kind 2
	cfg    *zap.Config    // kind 3
}

const c20path = "/log/level"

// the AtomicLevel a holder holds, as a Go value copy (nil for a logger: it does not give it back)
func (h *c20holder) handle() *zap.AtomicLevel {
	switch h.kind {
	case 0:
		v := *h.lvl
		return &v
	case 2:
		hd, _ := h.mux.Handler(&http.Request{Method: "GET", URL: &url.URL{Path: c20path}, Host: "c20.test"})
		if a, ok := hd.(zap.AtomicLevel); ok {
			return &a
		}
		return nil
	case 3:
		v := h.cfg.Level
		return &v
	}
	return nil
}

type c20levels struct{ seen []zapcore.Level }

func (s *c20levels) hook(e zapcore.Entry) error { s.seen = append(s.seen, e.Level); return nil }
func (s *c20levels) take() []zapcore.Level      { t := s.seen; s.seen = nil; return t }

func c20bareConfig(lvl zap.AtomicLevel) *zap.Config {
	cfg := zap.NewProductionConfig()
	cfg.Level = lvl
	cfg.Sampling = nil
	cfg.OutputPaths = nil
	cfg.ErrorOutputPaths = nil
	return &cfg
}

// a new holder of kind k around a copy of src; variant picks among equivalent constructions
func c20newHolder(k int, src zap.AtomicLevel, variant int) (*c20holder, error) {
	switch k {
	case 0:
		v := src
		return &c20holder{kind: 0, lvl: &v}, nil
	case 1:
		switch variant % 3 {
		case 0:
			core, logs := observer.New(src)
			return &c20holder{kind: 1, logger: zap.New(core).Named("live"), taken: func() []zapcore.Level {
				var out []zapcore.Level
				for _, e := range logs.TakeAll() {
					out = append(out, e.Level)
				}
				return out
			}}, nil
		case 1:
			rec := &c20levels{}
			core := zapcore.NewCore(zapcore.NewJSONEncoder(zap.NewProductionEncoderConfig()), zapcore.AddSync(io.Discard), src)
			return &c20holder{kind: 1, logger: zap.New(core, zap.Hooks(rec.hook)).With(zap.Int("k", 1)), taken: rec.take}, nil
		default:
			rec := &c20levels{}
			lg, err := c20bareConfig(src).Build(zap.Hooks(rec.hook))
			if err != nil {
				return nil, err
			}
			return &c20holder{kind: 1, logger: lg, taken: rec.take}, nil
		}
	case 2:
		mux := http.NewServeMux()
		mux.Handle(c20path, src)
		return &c20holder{kind: 2, mux: mux}, nil
	case 3:
		return &c20holder{kind: 3, cfg: c20bareConfig(src)}, nil
	}
	return nil, fmt.Errorf("holder kind %d", k)
}

// copy: a Config is Built, a logger is derived (children share the core's LevelEnabler), anything else copies the value
func c20copyHolder(src *c20holder, k, variant int) (*c20holder, error) {
	if src.kind == 1 {
		if k != 1 {
			return nil, fmt.Errorf("a logger does not give its AtomicLevel back")
		}
		var lg *zap.Logger
		switch variant % 3 {
		case 0:
			lg = src.logger.With(zap.String("child", "x"))
		case 1:
			lg = src.logger.Named("child")
		default:
			lg = src.logger.WithOptions(zap.AddCallerSkip(1))
		}
		return &c20holder{kind: 1, logger: lg, taken: src.taken}, nil
	}
	if src.kind == 3 && k == 1 {
		rec := &c20levels{}
		lg, err := src.cfg.Build(zap.Hooks(rec.hook))
		if err != nil {
			return nil, err
		}
		return &c20holder{kind: 1, logger: lg, taken: rec.take}, nil
	}
	a := src.handle()
	if a == nil {
		return nil, fmt.Errorf("holder of kind %d holds no AtomicLevel", src.kind)
	}
	return c20newHolder(k, *a, variant)
}

func (h *c20holder) reading() SX {
	switch h.kind {
	case 0:
		return Z(int64(h.lvl.Level()))
	case 1:
		h.taken()
		for l := zapcore.DebugLevel; l <= zapcore.DPanicLevel; l++ {
			if ce := h.logger.Check(l, "probe"); ce != nil {
				ce.Write()
			}
		}
		m := 0
		for _, l := range h.taken() {
			m |= 1 << uint(int(l)+1)
		}
		for l := zapcore.PanicLevel; l <= zapcore.FatalLevel; l++ {
			if h.logger.Core().Enabled(l) {
				m |= 1 << uint(int(l)+1)
			}
		}
		return L(I(m), Z(int64(h.logger.Level())))
	case 2:
		rec := httptest.NewRecorder()
		h.mux.ServeHTTP(rec, c20req{method: "GET"}.build())
		return L(I(rec.Code), B(rec.Body.Bytes()))
	default:
		return Z(int64(h.cfg.Level.Level()))
	}
}

type c20sop struct {
	op   int // 0 copy, 1 fresh, 2 text, 3 set, 4 request
	h, k int
	l    zapcore.Level
	text string // raw text (op 2)
	via  int
	req  c20req
}

// documents denoting a text, and the text they denote (oracles)
func c20jsonDoc(text string) (doc []byte, denotes string, ok bool) {
	doc, err := json.Marshal(text)
	if err != nil || json.Unmarshal(doc, &denotes) != nil {
		return nil, "", false
	}
	return doc, denotes, true
}

func c20yamlDoc(text string) (doc []byte, denotes string, ok bool) {
	if !utf8.ValidString(text) {
		return nil, "", false
	}
	var err error
	func() {
		defer func() {
			if recover() != nil {
				err = fmt.Errorf("panic")
			}
		}()
		doc, err = yaml.Marshal(text)
	}()
	if err != nil || yaml.Unmarshal(doc, &denotes) != nil {
		return nil, "", false
	}
	return doc, denotes, true
}

// decode text into the AtomicLevel held by h (kind 0 or 3); returns the text actually denoted, the
// entry point actually used, and whether the decoding reported success
func c20applyText(h *c20holder, text string, via int) (string, int, bool) {
	var target *zap.AtomicLevel
	if h.kind == 0 {
		target = h.lvl
	} else {
		target = &h.cfg.Level
	}
	switch via {
	case 1:
		fs := flag.NewFlagSet("c20", flag.ContinueOnError)
		fs.SetOutput(io.Discard)
		fs.TextVar(target, "level", *target, "log level")
		return text, 1, fs.Parse([]string{"-level=" + text}) == nil
	case 2:
		if doc, denotes, ok := c20jsonDoc(text); ok {
			if h.kind == 3 {
				return denotes, 2, json.Unmarshal([]byte(`{"level":`+string(doc)+`}`), h.cfg) == nil
			}
			return denotes, 2, json.Unmarshal(doc, target) == nil
		}
	case 3:
		if doc, denotes, ok := c20yamlDoc(text); ok {
			if h.kind == 3 {
				return denotes, 3, yaml.Unmarshal(append([]byte("level: "), doc...), h.cfg) == nil
			}
			return denotes, 3, yaml.Unmarshal(doc, target) == nil
		}
	}
	return text, 0, target.UnmarshalText([]byte(text)) == nil
}

func c20replyOf(code int, body []byte) SX {
	kind, payload := 0, body
	var m map[string]json.RawMessage
	if json.Unmarshal(body, &m) == nil && len(m) == 1 {
		if _, ok := m["level"]; ok {
			kind = 1
		} else if _, ok := m["error"]; ok {
			kind, payload = 2, nil
		}
	}
	return L(I(code), I(kind), B(payload))
}

func c20sharedHistory(c *Ctx, init zapcore.Level, k0 int, ops []c20sop, class string) {
	first, err := c20newHolder(k0, zap.NewAtomicLevelAt(init), 0)
	if err != nil {
		c.Assume("cannot build the first holder: " + err.Error())
		return
	}
	holders := []*c20holder{first}
	var ins, obs []SX
	caseSoFar := func() SX { return L(I(3), Z(int64(init)), I(k0), L(ins...)) }
	sharedText, refused := 0, 0
	groups := []int{0}
	nGroups := 1
	for _, o := range ops {
		var in, res SX = nil, L()
		aborted := false
		c20guard(c, "shared AtomicLevel operation", caseSoFar(), func() {
			switch o.op {
			case 0:
				if o.h >= len(holders) {
					aborted = true
					return
				}
				nh, err := c20copyHolder(holders[o.h], o.k, len(holders))
				if err != nil {
					aborted = true
					return
				}
				holders = append(holders, nh)
				groups = append(groups, groups[o.h])
				in = L(I(0), I(o.h), I(o.k))
			case 1:
				nh, err := c20newHolder(o.k, zap.NewAtomicLevelAt(o.l), len(holders))
				if err != nil {
					aborted = true
					return
				}
				holders = append(holders, nh)
				groups = append(groups, nGroups)
				nGroups++
				in = L(I(1), Z(int64(o.l)), I(o.k))
			case 2:
				if o.h >= len(holders) || (holders[o.h].kind != 0 && holders[o.h].kind != 3) {
					aborted = true
					return
				}
				denotes, via, ok := c20applyText(holders[o.h], o.text, o.via)
				in = L(I(2), I(o.h), Str(denotes), I(via))
				res = Bool(ok)
				if ok {
					for i := range holders {
						if i != o.h && groups[i] == groups[o.h] {
							sharedText++
							break
						}
					}
				} else {
					refused++
				}
			case 3:
				if o.h >= len(holders) {
					aborted = true
					return
				}
				a := holders[o.h].handle()
				if a == nil {
					aborted = true
					return
				}
				if holders[o.h].kind == 0 {
					holders[o.h].lvl.SetLevel(o.l)
				} else if holders[o.h].kind == 3 {
					holders[o.h].cfg.Level.SetLevel(o.l)
				} else {
					a.SetLevel(o.l)
				}
				in = L(I(3), I(o.h), Z(int64(o.l)))
			case 4:
				if o.h >= len(holders) || holders[o.h].kind == 1 {
					aborted = true
					return
				}
				rec := httptest.NewRecorder()
				switch holders[o.h].kind {
				case 0:
					holders[o.h].lvl.ServeHTTP(rec, o.req.build())
				case 2:
					holders[o.h].mux.ServeHTTP(rec, o.req.build())
				default:
					holders[o.h].cfg.Level.ServeHTTP(rec, o.req.build())
				}
				in = L(I(4), I(o.h), c20abstract(o.req))
				res = c20replyOf(rec.Code, rec.Body.Bytes())
				if rec.Code != 200 {
					refused++
				}
			default:
				aborted = true
			}
		})
		if aborted || in == nil {
			continue
		}
		ins = append(ins, in)
		var rd []SX
		c20guard(c, "reading the level through a holder", caseSoFar(), func() {
			for _, h := range holders {
				rd = append(rd, h.reading())
			}
		})
		obs = append(obs, L(res, L(rd...)))
	}
	if len(ins) == 0 {
		return
	}
	nt := "0"
	if sharedText > 0 && refused > 0 && len(ins) >= 4 {
		nt = "1"
	}
	c.Emit(caseSoFar(), L(obs...), map[string]string{"nt": nt, "class": class, "ops": fmt.Sprint(len(ins))})
}

// ---------------------------------------------------------------- generators

func c20sCopy(h, k int) c20sop                { return c20sop{op: 0, h: h, k: k} }
func c20sFresh(l zapcore.Level, k int) c20sop { return c20sop{op: 1, l: l, k: k} }
func c20sText(h int, t string, via int) c20sop {
	return c20sop{op: 2, h: h, text: t, via: via}
}
func c20sSet(h int, l zapcore.Level) c20sop { return c20sop{op: 3, h: h, l: l} }
func c20sReq(h int, q c20req) c20sop        { return c20sop{op: 4, h: h, req: q} }

// directed histories: every level name through every text entry point into a variable / a Config that
// is ALREADY shared with a logger, a mux, a Config and a plain copy; then rejected text, a PUT through
// the mux, SetLevel through a copy, text through the copy, and an unrelated AtomicLevel
func c20sharedDirected(c *Ctx, r *RNG) {
	J := "application/json"
	get := c20req{method: "GET"}
	names := append(append([]string{}, c20names...), genC20Texts...)
	for k0 := 0; k0 <= 3; k0 += 3 { // the first holder is a variable or a Config
		for via := 0; via <= 3; via++ {
			for ni, n := range names {
				init := zapcore.Level(int8(r.Range(-3, 8)))
				other := c20names[(ni+3)%7]
				// the smallest shape of the class: share, then decode
				c20sharedHistory(c, init, k0, []c20sop{c20sCopy(0, 1+ni%3), c20sText(0, n, via)}, "shared-directed")
				c20sharedHistory(c, init, k0, []c20sop{
					c20sCopy(0, 1), c20sCopy(0, 2), c20sCopy(0, 3), c20sCopy(0, 0),
					c20sText(0, c20randCase(r, n), via),
					c20sText(0, n+"g", via),
					c20sReq(2, c20put(J, "", `{"level":"`+other+`"}`)),
					c20sReq(0, get),
					c20sSet(4, zapcore.Level(int8(r.Range(-1, 5)))),
					c20sText(3, strings.ToUpper(n), (via+1)%4),
					c20sFresh(zapcore.Level(int8(r.Range(-1, 5))), 0),
					c20sText(5, other, via),
					c20sReq(2, c20put(c20form, "", "level="+url.QueryEscape(n))),
					c20sText(4, "", via),
					c20sCopy(3, 1), c20sCopy(1, 1),
					c20sText(0, other, via),
				}, "shared-directed")
			}
		}
	}
	// sharing established late, after updates; chains of copies of copies; updates through every kind of holder
	for _, n := range c20names[:7] {
		for via := 0; via <= 3; via++ {
			c20sharedHistory(c, zapcore.Level(42), 0, []c20sop{
				c20sText(0, n, via), c20sCopy(0, 0), c20sCopy(1, 0), c20sCopy(2, 3), c20sCopy(3, 2), c20sCopy(4, 0), c20sCopy(5, 1),
				c20sText(2, "ERROR", via), c20sText(3, "nope", via), c20sText(5, "Debug", via),
				c20sReq(4, c20put(c20form, "level=fatal", "level=warn")), c20sSet(1, zapcore.Level(-7)), c20sText(0, n, via),
			}, "shared-directed")
		}
	}
}

func c20genSharedHistory(r *RNG, maxOps int) (zapcore.Level, int, []c20sop) {
	k0 := 0
	if r.Chance(30) {
		k0 = 3
	}
	kinds := []int{k0}
	pickKind := func(ks ...int) int { // an existing holder of one of the kinds, or -1
		var cand []int
		for i, k := range kinds {
			for _, want := range ks {
				if k == want {
					cand = append(cand, i)
				}
			}
		}
		if len(cand) == 0 {
			return -1
		}
		return cand[r.Intn(len(cand))]
	}
	n := r.Range(3, maxOps)
	var ops []c20sop
	share := r.Range(0, 3) // usually the level is shared before it is updated
	for len(ops) < n {
		x := r.Intn(100)
		if len(ops) < share {
			x = 0
		}
		switch {
		case x < 20 && len(kinds) < 9:
			h := r.Intn(len(kinds))
			k := []int{0, 1, 1, 2, 3}[r.Intn(5)]
			if kinds[h] == 1 {
				k = 1
			}
			ops = append(ops, c20sCopy(h, k))
			kinds = append(kinds, k)
		case x < 25 && len(kinds) < 9:
			k := []int{0, 0, 1, 2, 3}[r.Intn(5)]
			ops = append(ops, c20sFresh(c20genTarget(r), k))
			kinds = append(kinds, k)
		case x < 60:
			h := pickKind(0, 3)
			if h < 0 {
				continue
			}
			var t string
			if r.Chance(65) {
				t = c20randCase(r, c20pickName(r))
			} else {
				t, _ = c20genText(r)
			}
			ops = append(ops, c20sText(h, t, r.Intn(4)))
		case x < 70:
			h := pickKind(0, 2, 3)
			if h < 0 {
				continue
			}
			ops = append(ops, c20sSet(h, c20genTarget(r)))
		default:
			h := pickKind(0, 2, 3)
			if h < 0 {
				continue
			}
			ops = append(ops, c20sReq(h, c20genReq(r, true)))
		}
	}
	return c20genTarget(r), k0, ops
}

func c20shared(c *Ctx, r *RNG) {
	c20sharedDirected(c, r)
	nHist, maxOps := 2500, 14
	if c.Thorough {
		nHist, maxOps = 50000, 40
	}
	for k := 0; k < nHist; k++ {
		init, k0, ops := c20genSharedHistory(r, maxOps)
		c20sharedHistory(c, init, k0, ops, "shared")
	}
}

package main

// C08, OVERSIZE OPERATIONS.  A pooled object may be treated differently once it has grown past some
// size: a buffer whose capacity exceeds a limit, a slice of cores / elements / program counters longer
// than its initial capacity, a reflection buffer that held a large value.  Whatever such a guard does,
// the object the pool hands out next must still be indistinguishable from a new one.  None of the
// ordinary history operations produces an entry above a few dozen KB, so a guard at 64 KiB (or 256 KiB,
// or 1 MiB) is never taken by them.  The operations of this file are large in every dimension zap
// pools over:
//   kind 16  one huge field / message through a Logger, a tee, or ioCore.Write directly: string,
//            byte string, binary (base64), int and string arrays, reflected string / slice (reflectBuf),
//            thousands of fields, a nested object, an error with a huge message plus a long error
//            list, sugar (Infow / Infof), JSON and console
//   kind 17  huge With contexts (core.With, Logger.With, chains of With, reflected and many-field
//            contexts) and small writes through the derived cores: every clone copies the context
//   kind 18  huge shapes: 600..3000-deep stacks (Stack.storage, the stack formatting buffer), a caller
//            path / logger name / stack string of that size (EntryCaller.TrimmedPath / FullPath
//            buffers), hundreds of open namespaces, a tee of 70 cores (CheckedEntry.cores), thousands
//            of errors (both errArrayElem pools), an array of thousands of objects
//   kind 19  direct use: Encoder.Clone / Add* / EncodeEntry / Free with huge values, several oversize
//            buffers held at once and freed together, the exported buffer.Pool (Get, fill, Free, Get),
//            the standard-library bridge (zap.NewStdLog)
// with sizes 70 KiB, 200 KiB, 1 MiB (thorough tier: also 4 MiB).  They are followed by the ordinary
// small probes: directly (pairwise, sizes ascending over the three repetitions), after one
// runtime.GC() (sync.Pool's victim cache still holds the object), after two (pools empty), and at
// random points of the random histories, under one and four Ps.
//
// OVERSIZE PROBES do the same inside one probe run, through active sinks as well: an identical small
// call is made before and after the large entry on the same logger and on unrelated loggers, and the
// lines must be byte-identical (a difference is reported directly, even in a fresh state: nothing but
// the large entry happened in between); huge lines are recorded as length + SHA-256 + head + tail so
// that a case stays a few KB.

import (
	"bytes"
	"crypto/sha256"
	"errors"
	"fmt"
	"runtime"
	"strconv"
	"strings"
	"sync"

	"go.uber.org/zap"
	"go.uber.org/zap/buffer"
	"go.uber.org/zap/zapcore"
)

const (
	c08KHugeField  = 16
	c08KHugeCtx    = 17
	c08KHugeShape  = 18
	c08KHugeDirect = 19
)

var c08HugeSizes = [...]int{70 << 10, 200 << 10, 1 << 20}

// set by the directed stage: the size every oversize operation uses (0 = drawn from the history's RNG)
var c08SizePlan int

// thorough tier: 4 MiB entries as well
var c08Thorough bool

func c08HugeSize(r *RNG) int {
	x := r.Intn(100) // drawn even when a plan is set: the random stream does not depend on the plan
	if c08SizePlan > 0 {
		return c08SizePlan
	}
	switch {
	case c08Thorough && x < 4:
		return 4 << 20
	case x < 45:
		return c08HugeSizes[0]
	case x < 80:
		return c08HugeSizes[1]
	}
	return c08HugeSizes[2]
}

// n bytes; a few per hundred need escaping in JSON.  All payloads are prefixes of one string (resp.
// one byte slice, which nobody writes to): an oversize operation allocates nothing but what zap allocates.
const c08PayloadUnit = "payload 0123456789 abcdefghijklmnopqrstuvwxyz ABCDEFGHIJKLMNOPQRSTUVWXYZ \"quoted\"\n\tétagère "

var (
	c08PayloadOnce  sync.Once
	c08PayloadStr   string
	c08PayloadBytes []byte
)

func c08PayloadInit() {
	c08PayloadOnce.Do(func() {
		c08PayloadStr = strings.Repeat(c08PayloadUnit, (4<<20)/len(c08PayloadUnit)+2)
		c08PayloadBytes = []byte(c08PayloadStr)
	})
}

func c08Payload(n int) string {
	c08PayloadInit()
	return c08PayloadStr[:n]
}

func c08PayloadB(n int) []byte {
	c08PayloadInit()
	return c08PayloadBytes[:n:n]
}

func c08Ints(n int) []int {
	xs := make([]int, n)
	for i := range xs {
		xs[i] = i % 10
	}
	return xs
}

func c08ManyFields(n int) []zapcore.Field {
	fs := make([]zapcore.Field, 0, n)
	for i := 0; i < n; i++ {
		fs = append(fs, zap.Int("k"+strconv.Itoa(i%1000), i))
	}
	return fs
}

func c08ManyErrs(n int) []error {
	es := make([]error, n)
	for i := range es {
		es[i] = plainErr{"cause " + strconv.Itoa(i)}
	}
	return es
}

func c08Enc(console bool, cfg zapcore.EncoderConfig) zapcore.Encoder {
	if console {
		return zapcore.NewConsoleEncoder(cfg)
	}
	return zapcore.NewJSONEncoder(cfg)
}

// a huge line as it is recorded in a probe's bytes
func c08Digest(b []byte) []byte {
	h := sha256.Sum256(b)
	head, tail := b, []byte(nil)
	if len(head) > 48 {
		head, tail = b[:48], b[len(b)-32:]
	}
	return []byte(fmt.Sprintf("<len=%d sha256=%x head=%q tail=%q>", len(b), h[:12], head, tail))
}

const c08NHugeField = 12

// the fields (and message) of one oversize entry
func c08HugeFields(variant, n int) (msg string, fs []zapcore.Field) {
	msg = "huge entry"
	switch variant % c08NHugeField {
	case 0:
		fs = []zapcore.Field{zap.String("payload", c08Payload(n))}
	case 1:
		msg = c08Payload(n)
		fs = []zapcore.Field{zap.Int("n", n)}
	case 2:
		fs = []zapcore.Field{zap.ByteString("payload", c08PayloadB(n))}
	case 3:
		fs = []zapcore.Field{zap.Binary("payload", c08PayloadB(n))}
	case 4:
		fs = []zapcore.Field{zap.Ints("payload", c08Ints(n/2))}
	case 5:
		ss := make([]string, n/8)
		for i := range ss {
			ss[i] = "abcde"
		}
		fs = []zapcore.Field{zap.Strings("payload", ss), zap.Bools("flags", make([]bool, n/16))}
	case 6:
		fs = []zapcore.Field{zap.Reflect("payload", c08Payload(n)), zap.Reflect("small", 1)}
	case 7:
		fs = []zapcore.Field{zap.Reflect("payload", map[string]interface{}{"xs": c08Ints(n / 2), "s": "t"}), zap.Reflect("bad", badJSON{})}
	case 8:
		fs = c08ManyFields(n / 12)
	case 9:
		fs = []zapcore.Field{zap.Object("payload", c08Obj{[]zapcore.Field{zap.Namespace("in"), zap.String("s", c08Payload(n/2)),
			zap.Reflect("r", c08Payload(n/2)), zap.Namespace("deeper"), zap.Int("i", 1)}, errors.New("huge object failed")}), zap.String("tail", "t")}
	case 10:
		fs = []zapcore.Field{zap.Error(groupErr{c08Payload(n / 2), c08ManyErrs(n / 64)}), zap.Errors("errs", c08ManyErrs(n/64)),
			zap.NamedError("fmt", fmtErr{"short", c08Payload(n / 2)})}
	default:
		fs = []zapcore.Field{zap.String("a", c08Payload(n/3)), zap.Namespace("ns"), zap.ByteString("b", c08PayloadB(n/3)),
			zap.Reflect("c", c08Payload(n/3)), zap.Stack("st")}
	}
	return
}

// kind 16: one oversize entry; via 0 = Logger, 1 = Logger over a tee with caller + stack, 2 = ioCore.Write, 3 = sugar
func c08HugeFieldOp(sc *c08Scope, variant, n int, console bool, via int) {
	msg, fs := c08HugeFields(variant, n)
	switch via % 4 {
	case 0:
		lg, _, _, _ := c08Logger(sc, 0, console, false, false)
		lg.Info(msg, fs...)
	case 1:
		lg, _, _, _ := c08Logger(sc, 0, console, true, false, zap.AddCaller(), zap.AddStacktrace(zapcore.WarnLevel))
		lg.Warn(msg, fs...)
	case 2:
		core := zapcore.NewCore(c08Enc(console, c08Cfg()), sc.sink(0, false), zapcore.DebugLevel)
		_ = core.Write(zapcore.Entry{Level: zapcore.ErrorLevel, Message: msg, LoggerName: "huge", Time: c08Clock{}.Now()}, fs)
	default:
		lg, _, _, _ := c08Logger(sc, 0, console, false, false, zap.AddCaller())
		sg := lg.Sugar()
		sg.Infow("sugared huge", "payload", c08Payload(n), "n", n, "xs", c08Ints(n/8))
		sg.Infof("%s|%d", c08Payload(n), n)
		sg.Infoln("ln", c08Payload(n/2))
	}
}

const c08NHugeCtx = 6

// kind 17: a huge With context, then small entries through the derived cores / loggers
func c08HugeCtxOp(sc *c08Scope, variant, n int, console bool) {
	small := zapcore.Entry{Level: zapcore.InfoLevel, Message: "small entry, huge context", Time: c08Clock{}.Now()}
	var core zapcore.Core = zapcore.NewCore(c08Enc(console, c08Cfg()), sc.sink(0, false), zapcore.DebugLevel)
	switch variant % c08NHugeCtx {
	case 0:
		child := core.With([]zapcore.Field{zap.String("ctx", c08Payload(n))})
		_ = child.Write(small, nil)
		_ = child.Write(small, c08Fields(1, 1, 0, 0, 0, 0, 0))
		_ = child.With(c08Fields(1, 0, 0, 1, 0, 0, 0)).Write(small, nil)
	case 1:
		lg, _, _, _ := c08Logger(sc, 0, console, true, false, zap.AddCaller())
		l2 := lg.With(zap.ByteString("ctx", c08PayloadB(n)), zap.Namespace("ns")).Named("huge-ctx")
		l2.Info("small entry, huge context", zap.Int("n", 1))
		l2.With(zap.Int("more", 2)).Warn("small entry, huge context, derived")
		lg.Info("root of the huge context")
	case 2:
		child := core.With([]zapcore.Field{zap.Reflect("ctx", c08Payload(n)), zap.Reflect("xs", c08Ints(n/4))})
		_ = child.Write(small, c08Fields(0, 1, 1, 0, 0, 0, 0))
		_ = child.Write(small, nil)
	case 3:
		child := core.With(c08ManyFields(n / 12))
		_ = child.Write(small, nil)
		_ = child.With(c08ManyFields(16)).Write(small, c08Fields(1, 0, 0, 0, 1, 0, 0))
	case 4:
		c := core
		for i := 0; i < 8; i++ {
			c = c.With([]zapcore.Field{zap.String("ctx"+strconv.Itoa(i), c08Payload(n/8)), zap.Namespace("n" + strconv.Itoa(i))})
			if i%3 == 2 {
				_ = c.Write(small, nil)
			}
		}
		_ = c.Write(small, c08Fields(1, 1, 0, 1, 0, 0, 0))
	default:
		child := core.With([]zapcore.Field{zap.Namespace("outer"), zap.Binary("bin", c08PayloadB(n/2)),
			zap.Object("obj", c08Obj{[]zapcore.Field{zap.String("s", c08Payload(n/2)), zap.Namespace("in")}, nil}),
			zap.Errors("errs", c08ManyErrs(n/256))})
		_ = child.Write(small, nil)
		_ = core.Write(small, nil)
	}
}

const c08NHugeShape = 6

type c08ObjArray struct {
	n int
	s string
}

func (a c08ObjArray) MarshalLogArray(enc zapcore.ArrayEncoder) error {
	for i := 0; i < a.n; i++ {
		_ = enc.AppendObject(c08Obj{[]zapcore.Field{zap.Int("i", i), zap.String("s", a.s)}, nil})
	}
	return nil
}

// kind 18: entries that are huge in shape rather than in one value
func c08HugeShapeOp(sc *c08Scope, variant, n int, console bool) {
	switch variant % c08NHugeShape {
	case 0: // a very deep stack: Stack.storage is replaced several times over, the formatting buffer is huge
		depth := n / 120 // 600, 1700, 8700 frames
		if depth > 3000 {
			depth = 3000
		}
		lg, _, _, _ := c08Logger(sc, 0, console, false, false, zap.AddCaller(), zap.AddStacktrace(zapcore.DebugLevel))
		c08Deep(depth, func() { lg.Info("very deep", zap.Stack("again"), zap.Int("depth", depth)) })
	case 1: // caller path, logger name, stack string: the path buffers of EntryCaller, the line buffer
		cfg := c08Cfg()
		if variant/c08NHugeShape%2 == 1 {
			cfg.EncodeCaller = zapcore.FullCallerEncoder
		}
		core := zapcore.NewCore(c08Enc(console, cfg), sc.sink(0, false), zapcore.DebugLevel)
		file := "/" + strings.Repeat("dir/", n/4) + "pkg/file.go"
		_ = core.Write(zapcore.Entry{Level: zapcore.WarnLevel, Message: "huge caller", LoggerName: c08Payload(n / 2), Time: c08Clock{}.Now(),
			Caller: zapcore.EntryCaller{Defined: true, File: file, Line: 7, Function: "pkg." + strings.Repeat("F", n/2)}, Stack: c08Payload(n)}, nil)
		c := zapcore.EntryCaller{Defined: true, File: file, Line: 9}
		_, _, _ = c.String(), c.FullPath(), c.TrimmedPath()
	case 2: // hundreds of namespaces left open
		fs := make([]zapcore.Field, 0, 900)
		for i := 0; i < 400; i++ {
			fs = append(fs, zap.Namespace("ns"+strconv.Itoa(i)), zap.Int("i", i))
		}
		lg, _, _, _ := c08Logger(sc, 0, console, true, false)
		lg.With(fs[:200]...).Info("deeply nested", fs[200:]...)
	case 3: // a tee of 70 cores: CheckedEntry.cores grows far beyond its initial capacity
		cores := make([]zapcore.Core, 70)
		for i := range cores {
			cores[i] = zapcore.NewCore(c08Enc(console != (i%2 == 0), c08Cfg()), sc.sink(0, i%7 == 3), zapcore.DebugLevel)
		}
		tee := zapcore.NewTee(cores...)
		zap.New(tee, zap.WithClock(c08Clock{}), zap.ErrorOutput(sc.sink(0, false))).Info("seventy cores", zap.Int("n", n))
		c08Bare(tee, zapcore.Entry{Level: zapcore.WarnLevel, Message: "seventy cores, bare", Time: c08Clock{}.Now()}, nil, cores[0], nil)
	case 4: // thousands of errors through both errArrayElem pools
		lg, _, _, _ := c08Logger(sc, 0, console, false, false)
		lg.Info("many errors", zap.Errors("errs", c08ManyErrs(n/24)), zap.Error(groupErr{"group", c08ManyErrs(n / 48)}))
	default: // an array of thousands of objects
		lg, _, _, _ := c08Logger(sc, 0, console, true, false)
		lg.Info("many objects", zap.Array("objs", c08ObjArray{n / 24, "v"}), zap.Array("big", c08ObjArray{3, c08Payload(n / 3)}))
	}
}

const c08NHugeDirect = 4

// kind 19: the Encoder API, the exported buffer pool and the standard-library bridge used directly.
// A buffer taken from a buffer.Pool must be empty whatever was freed into the pool before.
func c08HugeDirectOp(sc *c08Scope, variant, n int, console bool) (unexpected string) {
	small := zapcore.Entry{Level: zapcore.InfoLevel, Message: "direct, small", Time: c08Clock{}.Now()}
	switch variant % c08NHugeDirect {
	case 0:
		enc := c08Enc(console, c08Cfg())
		cl := enc.Clone()
		cl.AddString("s", c08Payload(n/2))
		cl.OpenNamespace("open")
		cl.AddByteString("b", c08PayloadB(n/4))
		cl.AddBinary("bin", c08PayloadB(n/8))
		_ = cl.AddReflected("r", c08Payload(n/4))
		_ = cl.AddArray("xs", zapcore.ArrayMarshalerFunc(func(ae zapcore.ArrayEncoder) error {
			for i := 0; i < n/8; i++ {
				ae.AppendInt(i)
			}
			return errors.New("huge array failed")
		}))
		if buf, err := cl.Clone().EncodeEntry(zapcore.Entry{Message: c08Payload(n / 4), Stack: "s"}, c08Fields(1, 1, 0, 1, 0, 0, 0)); err == nil {
			buf.Free()
		}
		if buf, err := enc.EncodeEntry(small, nil); err == nil {
			buf.Free()
		}
	case 1: // three oversize buffers owned at once, freed together
		enc := c08Enc(console, c08Cfg())
		var held []*buffer.Buffer
		for i := 0; i < 3; i++ {
			if buf, err := enc.EncodeEntry(zapcore.Entry{Message: "held"}, []zapcore.Field{zap.String("payload", c08Payload(n/(i+1)))}); err == nil {
				held = append(held, buf)
			}
		}
		for _, b := range held {
			b.Free()
		}
	case 2:
		p := buffer.NewPool()
		for round := 0; round < 3; round++ {
			b := p.Get()
			if b.Len() != 0 {
				unexpected = fmt.Sprintf("buffer.Pool.Get handed out a buffer that is not empty (Len = %d, starts %s) after a buffer of %d bytes was freed into the pool",
					b.Len(), c08Clip(b.Bytes()), n)
			}
			switch round {
			case 0:
				b.AppendString(c08Payload(n))
			case 1:
				for i := 0; i < n/8; i++ {
					b.AppendInt(int64(i))
					b.AppendByte(' ')
				}
			default:
				_, _ = b.Write(c08PayloadB(n))
				b.AppendBool(true)
				b.TrimNewline()
			}
			b.Free()
		}
		if b := p.Get(); b.Len() != 0 && unexpected == "" {
			unexpected = fmt.Sprintf("buffer.Pool.Get handed out a buffer that is not empty (Len = %d) after large buffers were freed into the pool", b.Len())
		} else {
			b.Free()
		}
	default:
		lg, _, _, _ := c08Logger(sc, 0, console, false, false, zap.AddCaller())
		std := zap.NewStdLog(lg.Named("std"))
		std.Print(c08Payload(n))
		std.Printf("%s %d", "short", 1)
	}
	return
}

// what an oversize operation looks like to the pooled model: operation kind and small field counts
// (the model's buffers have no capacity; sizes are the history test's subject), no hook (eighth
// element 0), then - for the reader of a replay only - the size in KiB and the variant
func c08HugeAbs(kind, variant int, console bool, n int) SX {
	k := 0
	if console {
		k = 1
	}
	abs := func(k, a, b, c, d, e, f int) SX {
		return L(I(k), I(a), I(b), I(c), I(d), I(e), I(f), I(0), I(n>>10), I(variant))
	}
	switch kind {
	case c08KHugeField:
		_, fs := c08HugeFields(variant, 64)
		a := len(fs)
		if a > 4 {
			a = 4
		}
		return abs(k, a, 1, variant%2, 1, variant%3, variant%2)
	case c08KHugeCtx:
		return abs(2, 2, 1, 0, 1, variant%2, k)
	case c08KHugeShape:
		if variant%c08NHugeShape == 0 {
			return abs(3, 1, 0, 0, 0, 0, 6+8*120)
		}
		if variant%c08NHugeShape == 3 {
			return abs(6, 1, 0, 0, 0, 0, 1)
		}
		return abs(k, 2, 0, 0, 3, 3, 0)
	}
	return abs(2, 2, 1, 0, 1, 0, k)
}

// one oversize history operation of the given kind (called from c08HistOp1)
func c08HugeOp(sc *c08Scope, r *RNG, kind int, quiet func(func())) (desc SX, class string, unexpected string) {
	n := c08HugeSize(r)
	variant, console, via := r.Intn(720), r.Bool(), r.Intn(4)
	sc.drop = true // nobody reads the sinks of a history operation
	quiet(func() {
		switch kind {
		case c08KHugeField:
			c08HugeFieldOp(sc, variant, n, console, via)
		case c08KHugeCtx:
			c08HugeCtxOp(sc, variant, n, console)
		case c08KHugeShape:
			c08HugeShapeOp(sc, variant, n, console)
		default:
			unexpected = c08HugeDirectOp(sc, variant, n, console)
		}
	})
	return c08HugeAbs(kind, variant, console, n), string("HXZD"[kind-c08KHugeField]), unexpected
}

// ---------- oversize probes ----------

// the same call, made at several points of one probe run, must give the same bytes
type c08Same struct {
	what  string
	after string // what happened since the previous identical call ("": a large entry)
	first []byte
	n     int
}

func (s *c08Same) check(b []byte) {
	s.n++
	if s.n == 1 {
		s.first = append([]byte(nil), b...)
		return
	}
	if !bytes.Equal(s.first, b) {
		after := s.after
		if after == "" {
			after = "a large entry"
		}
		panic(fmt.Sprintf("%s: identical call no. %d gave different bytes after %s: %s", s.what, s.n, after, c08DiffDesc(s.first, b)))
	}
}

// how got differs from want, in a line
func c08DiffDesc(want, got []byte) string {
	if extra := len(got) - len(want); extra > 0 && bytes.HasSuffix(got, want) {
		pre := got[:extra]
		if strings.Trim(string(pre), string(pre[:1])) == "" {
			return fmt.Sprintf("the %d bytes of the line are preceded by %d stale bytes, all 0x%02x", len(want), extra, pre[0])
		}
		return fmt.Sprintf("the %d bytes of the line are preceded by %d stale bytes %s", len(want), extra, c08Clip(pre))
	}
	i := 0
	for i < len(want) && i < len(got) && want[i] == got[i] {
		i++
	}
	lo := i - 20
	if lo < 0 {
		lo = 0
	}
	return fmt.Sprintf("len %d instead of %d, first difference at offset %d: %s instead of %s", len(got), len(want), i, c08Clip(got[lo:]), c08Clip(want[lo:]))
}

// the small call is made from ONE call site (captured stacks contain the caller's line): before the
// first step and after every step
func c08Interleave(small func(), steps ...func()) {
	for i := 0; i <= len(steps); i++ {
		small()
		if i < len(steps) {
			steps[i]()
		}
	}
}

func c08HugeProbes(add func(kind int, label string, sx SX, abs SX, run func(sc *c08Scope, act int) []byte)) {
	take := func(s *c08Sink) []byte {
		b := append([]byte(nil), s.Bytes()...)
		s.Reset()
		return b
	}
	// a Logger: small entry, 200 KiB string + 70 KiB reflected value, the same small entry on the same
	// logger and on an unrelated console logger, a 300 KiB message on that one, and again
	add(1, "huge-field-then-small", nil, c08Abs(3, 3, 1, 0, 0, 0, 2+8*2), func(sc *c08Scope, act int) []byte {
		lg, s1, _, es := c08Logger(sc, act, false, false, false, zap.AddCaller())
		other, o1, _, oes := c08Logger(sc, act, true, false, false, zap.AddCaller(), zap.AddStacktrace(zapcore.ErrorLevel))
		same, osame := &c08Same{what: "JSON logger"}, &c08Same{what: "unrelated console logger"}
		var out []byte
		c08Interleave(func() {
			lg.Info("small", zap.Int("n", 42), zap.String("k", "v"), zap.Reflect("r", []int{1}))
			same.check(take(s1))
			other.Error("other small", zap.String("k", "v"), zap.Error(errors.New("e")))
			osame.check(take(o1))
		}, func() {
			lg.Info("huge", zap.String("payload", c08Payload(200<<10)), zap.Reflect("r", c08Payload(70<<10)))
			out = append(out, c08Digest(take(s1))...)
		}, func() {
			other.Warn(c08Payload(300<<10), zap.Binary("bin", c08PayloadB(70<<10)))
			out = append(out, c08Digest(take(o1))...)
		})
		return append(append(append(out, same.first...), osame.first...), c08Join(es, oes)...)
	})
	// a console core with a 70 KiB + 100 KiB reflected + 3000-field context: two identical writes through
	// it, small writes through a sibling and through an unrelated JSON core in between
	add(1, "huge-context-then-small", nil, c08Abs(2, 3, 1, 0, 1, 0, 1), func(sc *c08Scope, act int) []byte {
		s1, s2, s3 := sc.sink(act, false), sc.sink(act, false), sc.sink(act, false)
		root := zapcore.NewCore(zapcore.NewConsoleEncoder(c08Cfg()), s1, zapcore.DebugLevel)
		plain := zapcore.NewCore(zapcore.NewJSONEncoder(c08Cfg()), s2, zapcore.DebugLevel)
		ent := zapcore.Entry{Level: zapcore.InfoLevel, Message: "small", LoggerName: "ctx", Time: c08Clock{}.Now()}
		same, hsame := &c08Same{what: "unrelated JSON core"}, &c08Same{what: "core with a huge context"}
		ctx := append([]zapcore.Field{zap.ByteString("ctx", c08PayloadB(70<<10)), zap.Reflect("r", c08Payload(100<<10))}, c08ManyFields(3000)...)
		var child zapcore.Core
		var sib, third []byte
		viaChild := func() {
			_ = child.Write(ent, c08Fields(1, 1, 0, 0, 0, 0, 0))
			hsame.check(take(s1))
		}
		c08Interleave(func() {
			_ = plain.Write(ent, c08Fields(2, 1, 0, 1, 1, 0, 0))
			same.check(take(s2))
		}, func() {
			child = root.With(append(ctx, zap.Namespace("ns")))
		}, viaChild, viaChild, func() {
			_ = root.With(c08Fields(1, 0, 0, 1, 0, 0, 0)).Write(ent, nil)
			sib = take(s1)
		}, func() {
			child3 := zapcore.NewCore(zapcore.NewJSONEncoder(c08Cfg()), s3, zapcore.DebugLevel).With(ctx[:2]).With(c08Fields(1, 1, 0, 0, 0, 0, 0))
			_ = child3.Write(ent, nil)
			third = c08Digest(take(s3))
		})
		return append(append(append(c08Digest(hsame.first), sib...), third...), same.first...)
	})
	// the Encoder API and the exported buffer pool: the owner of a 300 KiB buffer frees it, the next
	// EncodeEntry / Get must start from an empty buffer
	add(1, "huge-direct-encoder-buffer-pool", nil, c08Abs(2, 2, 1, 0, 1, 0, 0), func(sc *c08Scope, act int) []byte {
		enc := zapcore.NewJSONEncoder(c08Cfg())
		cons := zapcore.NewConsoleEncoder(c08Cfg())
		ent := zapcore.Entry{Level: zapcore.InfoLevel, Message: "direct small", Time: c08Clock{}.Now()}
		same, csame := &c08Same{what: "JSON Encoder.EncodeEntry"}, &c08Same{what: "console Encoder.EncodeEntry"}
		p := buffer.NewPool()
		var out []byte
		round := 0
		pool := func() {
			b := p.Get()
			out = append(out, []byte(fmt.Sprintf("<pool round %d: Len=%d %s>", round, b.Len(), c08Clip(b.Bytes())))...)
			b.AppendString(c08Payload((70 << 10) << (2 * round))) // 70 KiB, 280 KiB, 1120 KiB
			c08Nested(act, 1<<10)()
			b.Free()
			round++
		}
		c08Interleave(func() {
			b, _ := enc.EncodeEntry(ent, c08Fields(1, 1, 0, 0, 0, 0, 0))
			same.check(b.Bytes())
			b.Free()
			b, _ = cons.EncodeEntry(ent, c08Fields(1, 1, 0, 1, 0, 0, 0))
			csame.check(b.Bytes())
			b.Free()
		}, func() {
			cl := enc.Clone()
			cl.AddByteString("b", c08PayloadB(300<<10))
			cl.OpenNamespace("n")
			_ = cl.AddReflected("r", c08Payload(80<<10))
			buf, _ := cl.EncodeEntry(ent, []zapcore.Field{zap.Ints("xs", c08Ints(40<<10))})
			after := c08Nested(act, 1<<12)
			out = append(out, c08Digest(buf.Bytes())...)
			after()
			buf.Free()
		}, pool, pool, pool)
		b := p.Get()
		out = append(out, []byte(fmt.Sprintf("<pool, finally: Len=%d %s>", b.Len(), c08Clip(b.Bytes())))...)
		b.AppendString("x")
		out = append(out, b.Bytes()...)
		b.Free()
		return append(append(out, same.first...), csame.first...)
	})
	// huge shapes: a 1200-deep stack, 300 open namespaces, a tee of 40 cores, 2500 errors - each followed
	// by the same small call with caller and stack
	add(1, "huge-shape-then-small", nil, c08Abs(3, 1, 0, 0, 2, 3, 6+8*100), func(sc *c08Scope, act int) []byte {
		lg, s1, _, es := c08Logger(sc, act, false, false, false, zap.AddCaller(), zap.AddStacktrace(zapcore.InfoLevel))
		same := &c08Same{what: "logger with caller and stack"}
		var out []byte
		c08Interleave(func() {
			lg.Info("small", c08Fields(1, 1, 0, 1, 1, 0, 0)...)
			same.check(take(s1))
		}, func() {
			c08Deep(1200, func() { lg.Debug("very deep", zap.Stack("again")) })
			out = append(out, c08Digest(take(s1))...)
		}, func() {
			fs := make([]zapcore.Field, 0, 600)
			for i := 0; i < 300; i++ {
				fs = append(fs, zap.Namespace("ns"+strconv.Itoa(i)), zap.Int("i", i))
			}
			lg.With(fs[:300]...).Debug("deeply nested", fs[300:]...)
			out = append(out, c08Digest(take(s1))...)
		}, func() {
			sinks := make([]*c08Sink, 40)
			cores := make([]zapcore.Core, 40)
			for i := range cores {
				sinks[i] = sc.sink(act*((i+1)%2), i == 17)
				cores[i] = zapcore.NewCore(c08Enc(i%2 == 1, c08Cfg()), sinks[i], zapcore.DebugLevel)
			}
			tes := sc.sink(0, false)
			zap.New(zapcore.NewTee(cores...), zap.WithClock(c08Clock{}), zap.ErrorOutput(tes), zap.AddCaller()).Warn("forty cores", zap.Int("n", 40))
			c08Bare(zapcore.NewTee(cores[:30]...), zapcore.Entry{Level: zapcore.InfoLevel, Message: "thirty cores, bare", Time: c08Clock{}.Now()}, nil, nil, nil)
			out = append(out, c08Digest(c08Join(append(sinks, tes)...))...)
		}, func() {
			lg.Debug("many errors", zap.Errors("errs", c08ManyErrs(2500)), zap.Error(groupErr{"group", c08ManyErrs(600)}))
			out = append(out, c08Digest(take(s1))...)
			runtime.Gosched()
		})
		return append(append(out, same.first...), c08Join(es)...)
	})
}

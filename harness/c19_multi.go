package main

import (
	"bytes"
	"fmt"
	"net/url"
	"regexp"
	"strconv"

	"go.uber.org/multierr"
	"go.uber.org/zap"
	"go.uber.org/zap/zapcore"
)

// C19, wire kind 6: the writer returned by Open / CombineWriteSyncers and the logger
// returned by Config.Build, over destinations whose answers are scripted per step.
//
// "every configured destination receives every write" has to hold whatever the other
// destinations answer: a destination may take the whole write, reject it with (0, err),
// report 0 bytes without an error, take a part of it with or without an error, or take
// all of it and still report an error (ztest.FailWriter); its Sync may fail.  The sinks
// of kinds 0-5 always accept, so a writer that stops delivering once one destination
// has answered badly is invisible to them.  Here every destination is a registered test
// sink ("c19w://h/<j>") that records what it receives during each step and answers as
// the case says; the observation is, per step, what every destination received, what
// Write / Sync returned, and which destinations the returned error names.

type c19beh struct {
	n    int // bytes reported (0 <= n <= the case's nominal length)
	err  bool
	serr bool
}

type c19wsink struct {
	idx     int
	nominal int
	cur     c19beh
	got     [][]byte
	syncs   int
	closes  int
	werr    error
	syncErr error
}

func (s *c19wsink) Write(p []byte) (int, error) {
	s.got = append(s.got, append([]byte(nil), p...))
	n := s.cur.n
	switch {
	case n <= 0:
		n = 0
	case n >= s.nominal:
		n = len(p)
	case n > len(p)-1:
		n = len(p) - 1
	}
	if n < 0 {
		n = 0
	}
	if s.cur.err {
		return n, s.werr
	}
	return n, nil
}

func (s *c19wsink) Sync() error {
	s.syncs++
	if s.cur.serr {
		return s.syncErr
	}
	return nil
}

func (s *c19wsink) Close() error { s.closes++; return nil }

func c19newWsink(idx, nominal int) *c19wsink {
	return &c19wsink{idx: idx, nominal: nominal, cur: c19beh{n: nominal},
		werr: fmt.Errorf("c19w-fail-%d.", idx), syncErr: fmt.Errorf("c19w-syncfail-%d.", idx)}
}

type c19mstep struct {
	t      int // 0 Write / entry, 1 Sync
	b1, b2 []c19beh
}

type c19mcase struct {
	mode     int // 0 Open, 1 CombineWriteSyncers, 2 Config.Build
	cl       bool
	len      int
	nd1, nd2 int
	steps    []c19mstep
}

func c19behSx(bs []c19beh) SX {
	out := make([]SX, len(bs))
	for i, b := range bs {
		out[i] = L(I(b.n), Bool(b.err), Bool(b.serr))
	}
	return L(out...)
}

var c19failRe = regexp.MustCompile(`c19w-(sync)?fail-(\d+)\.`)

func c19payloadN(n int) []byte {
	const base = "c19w payload 0123456789 abcdefghijklmnopqrstuvwxyz ABCDEFGHIJKLMNOPQRSTUVWXYZ\n"
	var b []byte
	for len(b) < n {
		b = append(b, base...)
	}
	return b[:n]
}

// the destinations a returned error consists of, in order; -1 for anything else
func c19errDests(err error, sinks []*c19wsink, sync bool) SX {
	var out []SX
	for _, e := range multierr.Errors(err) {
		d := -1
		for _, s := range sinks {
			if (!sync && e == s.werr) || (sync && e == s.syncErr) {
				d = s.idx
			}
		}
		out = append(out, I(d))
	}
	return L(out...)
}

func c19multi(c *Ctx, mc c19mcase, class string) {
	steps := make([]SX, len(mc.steps))
	nt := false
	for i, st := range mc.steps {
		steps[i] = L(I(st.t), c19behSx(st.b1), c19behSx(st.b2))
		if st.t == 0 {
			for _, bs := range [][]c19beh{st.b1, st.b2} {
				for j, b := range bs {
					if j+1 < len(bs) && (b.n < mc.len || b.err) {
						nt = true
					}
				}
			}
		}
	}
	input := L(I(6), I(mc.mode), Bool(mc.cl), I(mc.len), I(mc.nd1), I(mc.nd2), L(steps...))
	e, ok := c19begin(c)
	if !ok {
		return
	}
	defer e.end()
	obs, st := c19guard(c, "multi-destination writer", input, func() SX { return c19multiObs(c, mc, input) })
	c.Emit(input, obs, e.meta(nt, class, st, "k", fmt.Sprint(mc.nd1+mc.nd2), "mode", fmt.Sprint(mc.mode)))
}

func c19multiObs(c *Ctx, mc c19mcase, input SX) SX {
	var sinks []*c19wsink
	mk := func() *c19wsink {
		s := c19newWsink(len(sinks), mc.len)
		sinks = append(sinks, s)
		return s
	}
	paths := func(from, n int) []string {
		out := make([]string, n)
		for i := range out {
			out[i] = fmt.Sprintf("c19w://h/%d", from+i)
		}
		return out
	}
	if mc.mode != 1 {
		if err := zap.RegisterSink("c19w", func(*url.URL) (zap.Sink, error) { return mk(), nil }); err != nil {
			panic(err)
		}
	}
	var (
		w        zapcore.WriteSyncer
		closeAll func()
		lg       *zap.Logger
	)
	switch mc.mode {
	case 0:
		var err error
		w, closeAll, err = zap.Open(paths(0, mc.nd1)...)
		if err != nil {
			return L(I(8), Str(err.Error()))
		}
	case 1:
		ws := make([]zapcore.WriteSyncer, mc.nd1)
		for i := range ws {
			ws[i] = mk()
		}
		w = zap.CombineWriteSyncers(ws...)
	default:
		cfg := zap.Config{Level: zap.NewAtomicLevelAt(zapcore.InfoLevel), Encoding: "json", EncoderConfig: c19encCfg(true, true),
			OutputPaths: paths(0, mc.nd1), ErrorOutputPaths: paths(mc.nd1, mc.nd2), DisableStacktrace: true, DisableCaller: !mc.cl}
		var opts []zap.Option
		if mc.cl {
			// the absurd caller skip makes Logger.check report, per entry, a caller it cannot find
			opts = append(opts, zap.AddCallerSkip(100000))
		}
		var err error
		lg, err = cfg.Build(opts...)
		if err != nil {
			return L(I(8), Str(err.Error()))
		}
	}
	if len(sinks) != mc.nd1+mc.nd2 {
		return L(I(8), Str(fmt.Sprintf("%d destinations created", len(sinks))))
	}
	payload := c19payloadN(mc.len)
	good := func(s *c19wsink, p []byte) bool {
		switch {
		case mc.mode != 2:
			return bytes.Equal(p, payload)
		case s.idx < mc.nd1:
			return bytes.HasSuffix(p, []byte("\n")) && bytes.Contains(p, []byte(`"m":"c19w"`))
		}
		return bytes.HasSuffix(p, []byte("\n")) &&
			(bytes.Contains(p, []byte("failed to get caller")) || bytes.Contains(p, []byte("write error")))
	}
	var obs []SX
	for _, st := range mc.steps {
		for j, s := range sinks {
			s.got, s.syncs = nil, 0
			switch {
			case j < mc.nd1 && j < len(st.b1):
				s.cur = st.b1[j]
			case j >= mc.nd1 && j-mc.nd1 < len(st.b2):
				s.cur = st.b2[j-mc.nd1]
			default:
				s.cur = c19beh{n: mc.len}
			}
		}
		n, errs := 0, L()
		switch {
		case mc.mode != 2 && st.t == 0:
			var err error
			n, err = w.Write(payload)
			errs = c19errDests(err, sinks, false)
		case mc.mode != 2:
			errs = c19errDests(w.Sync(), sinks, true)
		case st.t == 0:
			lg.Info("c19w")
			// the destinations named by the "write error" line, as the error output received it
			var line []byte
			for _, s := range sinks[mc.nd1:] {
				for _, p := range s.got {
					if line == nil && bytes.Contains(p, []byte("write error")) {
						line = p
					}
				}
			}
			var ds []SX
			for _, m := range c19failRe.FindAllSubmatch(line, -1) {
				d, _ := strconv.Atoi(string(m[2]))
				if len(m[1]) > 0 {
					d = -1
				}
				ds = append(ds, I(d))
			}
			errs = L(ds...)
		default:
			errs = c19errDests(lg.Sync(), sinks, true)
		}
		stat := func(ss []*c19wsink) SX {
			out := make([]SX, len(ss))
			for i, s := range ss {
				wn := len(s.got)
				for _, p := range s.got {
					if !good(s, p) {
						wn = -1
					}
				}
				out[i] = L(I(wn), I(s.syncs))
			}
			return L(out...)
		}
		obs = append(obs, L(stat(sinks[:mc.nd1]), stat(sinks[mc.nd1:]), I(n), errs))
	}
	if closeAll != nil {
		closeAll()
	}
	return L(obs...)
}

// ================= generators =================

// the answers a destination can give to a Write of n bytes (k: a short count)
const c19nBehClasses = 6

func c19behOf(cls, n, k int) c19beh {
	if k >= n {
		k = n - 1
	}
	if k < 0 {
		k = 0
	}
	switch cls {
	case 1:
		return c19beh{n: 0, err: true} // rejected: the usual shape of a failed write
	case 2:
		return c19beh{n: 0} // nothing written, no error
	case 3:
		return c19beh{n: k, err: true} // short write
	case 4:
		return c19beh{n: k} // short write without an error
	case 5:
		return c19beh{n: n, err: true} // ztest.FailWriter
	}
	return c19beh{n: n}
}

func c19fullBehs(nd, n int) []c19beh {
	out := make([]c19beh, nd)
	for i := range out {
		out[i] = c19beh{n: n}
	}
	return out
}

func c19withBeh(bs []c19beh, at int, b c19beh) []c19beh {
	out := append([]c19beh(nil), bs...)
	out[at] = b
	return out
}

func c19syncBehs(nd, n int, failing ...int) []c19beh {
	out := c19fullBehs(nd, n)
	for _, j := range failing {
		out[j].serr = true
	}
	return out
}

func c19multiDirected(c *Ctx) {
	const n = 12
	// ---- one misbehaving destination at every position of 2..4, every kind of answer,
	// in the middle of a history of writes and syncs; Open, CombineWriteSyncers, and
	// Config.Build with the fault among OutputPaths and among ErrorOutputPaths
	for variant := 0; variant < 4; variant++ {
		for nd := 2; nd <= 4; nd++ {
			for p := 0; p < nd; p++ {
				for cls := 1; cls < c19nBehClasses; cls++ {
					bad := c19behOf(cls, n, 1+(p+cls)%(n-1))
					full := c19fullBehs(nd, n)
					faulty := c19withBeh(full, p, bad)
					mc := c19mcase{mode: variant, len: n, nd1: nd}
					var other []c19beh
					if variant >= 2 {
						mc.mode, mc.nd2 = 2, 2
						mc.cl = (p+cls)%2 == 0
						other = c19fullBehs(2, n)
					}
					mk := func(t int, scripted []c19beh) c19mstep { return c19mstep{t: t, b1: scripted, b2: other} }
					if variant == 3 {
						// the fault is on the error output; the first output destination fails on every
						// other entry, so that "write error" lines are produced as well
						mc.nd1, mc.nd2, mc.cl = 2, nd, true
						k := 0
						mk = func(t int, scripted []c19beh) c19mstep {
							k++
							out := c19fullBehs(2, n)
							if k%2 == 0 {
								out[0] = c19beh{n: 0, err: true}
							}
							return c19mstep{t: t, b1: out, b2: scripted}
						}
					}
					mc.steps = []c19mstep{mk(0, full), mk(0, faulty), mk(0, full), mk(1, c19syncBehs(nd, n, p)), mk(1, full),
						mk(0, faulty), mk(0, faulty), mk(0, full)}
					c19multi(c, mc, "dir-multi")
				}
			}
		}
	}
	// ---- every combination of answers over 2 and 3 destinations (4 in the thorough tier)
	maxNd := 3
	if c.Thorough {
		maxNd = 4
	}
	for nd := 2; nd <= maxNd; nd++ {
		total := 1
		for i := 0; i < nd; i++ {
			total *= c19nBehClasses
		}
		for code := 0; code < total; code++ {
			bs := make([]c19beh, nd)
			for i, x := 0, code; i < nd; i, x = i+1, x/c19nBehClasses {
				bs[i] = c19behOf(x%c19nBehClasses, n, 3+i)
				bs[i].serr = (code+i)%3 == 0
			}
			for mode := 0; mode < 3; mode++ {
				mc := c19mcase{mode: mode, len: n, nd1: nd}
				var other []c19beh
				if mode == 2 {
					mc.nd2, mc.cl = 1+code%2, code%4 < 2
					other = c19fullBehs(mc.nd2, n)
				}
				mc.steps = []c19mstep{{0, bs, other}, {1, bs, other}, {0, c19fullBehs(nd, n), other}}
				c19multi(c, mc, "dir-multi")
			}
		}
	}
	// ---- two misbehaving destinations among four
	for i := 0; i < 4; i++ {
		for j := i + 1; j < 4; j++ {
			for ci := 1; ci < c19nBehClasses; ci++ {
				for cj := 1; cj < c19nBehClasses; cj++ {
					bs := c19withBeh(c19withBeh(c19fullBehs(4, n), i, c19behOf(ci, n, 5)), j, c19behOf(cj, n, 2))
					c19multi(c, c19mcase{mode: 0, len: n, nd1: 4, steps: []c19mstep{{0, bs, nil}, {1, c19syncBehs(4, n, i, j), nil}, {0, bs, nil}}}, "dir-multi")
					eb := c19fullBehs(3, n)
					eb[0] = c19behOf(cj, n, 4)
					c19multi(c, c19mcase{mode: 2, cl: (i+j)%2 == 0, len: n, nd1: 4, nd2: 3,
						steps: []c19mstep{{0, bs, eb}, {1, c19syncBehs(4, n, i, j), eb}, {0, bs, c19fullBehs(3, n)}}}, "dir-multi")
				}
			}
		}
	}
	// ---- no destination, one destination (the writer is io.Discard / the sink itself), empty writes
	for mode := 0; mode < 3; mode++ {
		for nd := 0; nd <= 1; nd++ {
			for cls := 0; cls < c19nBehClasses; cls++ {
				for _, ln := range []int{n, 1, 0} {
					bs := make([]c19beh, nd)
					for i := range bs {
						bs[i] = c19behOf(cls, ln, 4)
						bs[i].serr = cls%2 == 1
					}
					mc := c19mcase{mode: mode, len: ln, nd1: nd}
					var other []c19beh
					if mode == 2 {
						mc.nd2, mc.cl = cls%3, cls%2 == 0
						other = make([]c19beh, mc.nd2)
						for i := range other {
							other[i] = c19behOf((cls+i)%c19nBehClasses, ln, 2)
						}
					}
					mc.steps = []c19mstep{{0, bs, other}, {1, bs, other}, {0, bs, other}}
					c19multi(c, mc, "dir-multi")
				}
			}
		}
	}
	for nd := 2; nd <= 4; nd++ {
		for _, ln := range []int{0, 1, 2} {
			for p := 0; p < nd; p++ {
				bs := c19withBeh(c19fullBehs(nd, ln), p, c19beh{n: 0, err: true})
				c19multi(c, c19mcase{mode: p % 2, len: ln, nd1: nd, steps: []c19mstep{{0, bs, nil}, {0, c19fullBehs(nd, ln), nil}}}, "dir-multi")
			}
		}
	}
}

func c19multiRandom(c *Ctx, r *RNG) {
	mc := c19mcase{mode: r.Intn(3), len: r.Range(0, 16)}
	if r.Chance(60) {
		mc.len = r.Range(8, 40)
	}
	mc.nd1 = r.Range(2, 4)
	if r.Chance(12) {
		mc.nd1 = r.Intn(2)
	}
	if mc.mode == 2 {
		mc.nd2 = r.Range(0, 4)
		mc.cl = r.Chance(60)
		if r.Chance(30) { // the error output is the interesting side
			mc.nd1, mc.nd2, mc.cl = r.Range(0, 2), r.Range(2, 4), r.Chance(80)
		}
	}
	pFull := []int{30, 60, 85}[r.Intn(3)]
	behs := func(nd int) []c19beh {
		out := make([]c19beh, nd)
		for i := range out {
			cls := 0
			if !r.Chance(pFull) {
				cls = r.Range(1, c19nBehClasses-1)
			}
			out[i] = c19behOf(cls, mc.len, r.Range(1, mc.len+1))
			out[i].serr = r.Chance(25)
		}
		return out
	}
	ns := r.Range(1, 8)
	for k := 0; k < ns; k++ {
		t := 0
		if r.Chance(25) {
			t = 1
		}
		mc.steps = append(mc.steps, c19mstep{t: t, b1: behs(mc.nd1), b2: behs(mc.nd2)})
	}
	c19multi(c, mc, "multi")
}

package main

import (
	"encoding/hex"
	"strconv"
	"strings"
)

// S-expression wire format shared with coq/theories/Base/Wire.v and ocaml/driver.ml.
type SX interface{ write(sb *strings.Builder) }

type sz struct{ s string }
type sb struct{ b []byte }
type sl struct{ l []SX }

func (x sz) write(w *strings.Builder) { w.WriteString(x.s) }
func (x sb) write(w *strings.Builder) { w.WriteByte('#'); w.WriteString(hex.EncodeToString(x.b)) }
func (x sl) write(w *strings.Builder) {
	w.WriteByte('(')
	for i, e := range x.l {
		if i > 0 {
			w.WriteByte(' ')
		}
		e.write(w)
	}
	w.WriteByte(')')
}

func Z(i int64) SX   { return sz{strconv.FormatInt(i, 10)} }
func I(i int) SX     { return sz{strconv.Itoa(i)} }
func U(i uint64) SX  { return sz{strconv.FormatUint(i, 10)} }
func B(b []byte) SX  { return sb{append([]byte(nil), b...)} }
func Str(s string) SX { return sb{[]byte(s)} }
func L(l ...SX) SX   { return sl{l} }
func Bool(b bool) SX {
	if b {
		return sz{"1"}
	}
	return sz{"0"}
}
func LB(l [][]byte) SX {
	out := make([]SX, len(l))
	for i, b := range l {
		out[i] = B(b)
	}
	return sl{out}
}
func LI(l []int) SX {
	out := make([]SX, len(l))
	for i, b := range l {
		out[i] = I(b)
	}
	return sl{out}
}
func Render(x SX) string {
	var w strings.Builder
	x.write(&w)
	return w.String()
}
